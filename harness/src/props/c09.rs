//! C09 — axes follow first appearance of population labels; only listed samples count.

use sfs_core::input::{
    sample::Population,
    site::{self, reader::builder::Samples},
    Sample,
};

use crate::{
    cli::{run_sfs, Scratch, Stdin},
    createmodel::{run_reader, Cls, MemReader},
    enumerate::{indices, ordered_lists, permutations},
    gen::{to_vcf, CallSet},
    json::J,
    par::par_map,
    refmodel::RefArray,
    subject::parse_out,
    verdict::{norm_msg, Part, Report, Tier},
};

type Viol = (String, String, J);

/// One list entry: (sample column, label) with label 0 = unlabelled, 1..=3 = "A","B","C".
type Entry = (usize, usize);

const LABELS: [&str; 4] = ["", "A", "B", "C"];

/// Legal spellings of sample names and population labels; the result must not depend on them.
#[derive(Clone, Copy, Debug)]
struct Naming {
    id: &'static str,
    names: [&'static str; 5],
    labels: [&'static str; 4],
}

const LONG_A: &str = "sample_aaaaaaaaaaaaaaaaaaaaaaaaaaaaaaaaaaaaaaaaaaaaaaaaaaaaaaaaaaaaaaaaaaaaaaaaaaaaaaaaaaaaaaaaaaaaaaaaaaaaaaaaaaaaaaaaaaaaaaaaaaaaaaaaaaaaaaaaaaaaaaaaaaaaaaaaaaaaaaaaaaaaaaaaaaaaaaaaaaaaaaaaaaaaaaaaaaaaaaaaaaaaaaaaaaaaaaaaaaaaaaaaaaaaaaaaaaaaaaaaaaaaaaaaaaaaaaaaaaaaaaaaaaaaaaaaaaaaaaaaaaaaaaaaaaaaaaaa_end";
const LONG_B: &str = "sample_aaaaaaaaaaaaaaaaaaaaaaaaaaaaaaaaaaaaaaaaaaaaaaaaaaaaaaaaaaaaaaaaaaaaaaaaaaaaaaaaaaaaaaaaaaaaaaaaaaaaaaaaaaaaaaaaaaaaaaaaaaaaaaaaaaaaaaaaaaaaaaaaaaaaaaaaaaaaaaaaaaaaaaaaaaaaaaaaaaaaaaaaaaaaaaaaaaaaaaaaaaaaaaaaaaaaaaaaaaaaaaaaaaaaaaaaaaaaaaaaaaaaaaaaaaaaaaaaaaaaaaaaaaaaaaaaaaaaaaaaaaaaaaaaaaaaaaaaa_enD";
const LONG_C: &str = "bbbbbbbbbbbbbbbbbbbbbbbbbbbbbbbbbbbbbbbbbbbbbbbbbbbbbbbbbbbbbbbbbbbbbbbbbbbbbbbbbbbbbbbbbbbbbbbbbbbbbbbbbbbbbbbbbbbbbbbbbbbbbbbbbbbbbbbbbbbbbbbbbbbbbbbbbbbbbbbbbbbbbbbbbbbbbbbbbbbbbbbbbbbbbbbbbbbbbbbbbbbbbbbbbbbbbbbbbbbbbbbbbbbbbbbbbbbbbbbbbbbbbbbbbbbbbbbbbbbbbbbbbbbbbbbbbbb";
const PLAIN: Naming = Naming { id: "plain", names: ["s0", "s1", "s2", "s3", "s4"], labels: LABELS };

const NAMINGS: [Naming; 11] = [
    PLAIN,
    // names whose lexicographic, numeric and list orders all differ
    Naming { id: "numeric-names", names: ["s10", "s9", "s100", "s1", "s2"], labels: ["", "north", "South", "east"] },
    // labels with blanks that share their first word (legal in a tab-separated samples file and in sample=label)
    Naming { id: "labels-with-blanks", names: ["s0", "s1", "s2", "s3", "s4"], labels: ["", "East Africa", "East Asia", "East"] },
    // labels that are prefixes of each other / differ only in case
    Naming { id: "prefix-and-case-labels", names: ["a", "A", "aa", "Aa", "b"], labels: ["", "pop", "Pop", "pop1"] },
    // numeric labels in an order different from the ids the tool assigns; a label equal to a sample name
    Naming { id: "numeric-labels", names: ["s0", "s1", "s2", "s3", "s4"], labels: ["", "2", "0", "s0"] },
    // sample names with blanks and punctuation (VCF sample columns are tab-separated)
    Naming { id: "names-with-blanks", names: ["NA 1", "NA 2", "NA 10", "NA", "x.y-z"], labels: ["", "A", "B", "C"] },
    // labels that contain '=' themselves (only the first '=' of an entry separates sample and label)
    Naming { id: "labels-with-equals", names: ["s0", "s1", "s2", "s3", "s4"], labels: ["", "K=2.1", "K=2.2", "K"] },
    // long names and labels (300 and 5 000 bytes)
    Naming { id: "long-names", names: [LONG_A, LONG_B, "s2", LONG_C, "s4"], labels: ["", LONG_B, LONG_C, "x"] },
    // non-ASCII names and labels
    Naming { id: "unicode", names: ["sämple", "样本", "sé", "s_3", "s-4"], labels: ["", "Nord", "Süd", "东"] },
    // labels that differ only in a blank in front or behind
    Naming { id: "labels-with-outer-blanks", names: ["s0", "s1", "s2", "s3", "s4"], labels: ["", "A ", " A", "A"] },
    // labels that look like the tool's own placeholder for samples without a label
    Naming { id: "placeholder-like-labels", names: ["s0", "s1", "s2", "s3", "s4"], labels: ["", "[unnamed]", "unnamed", "[0]"] },
];

fn naming_by_id(id: &str) -> Naming {
    NAMINGS.iter().copied().find(|n| n.id == id).unwrap_or(PLAIN)
}

/// Genotype columns (ALT counts) of up to 5 samples over 6 records; pairwise different.
const COLS: [[usize; 6]; 5] = [
    [0, 1, 2, 0, 1, 2],
    [0, 0, 1, 1, 2, 2],
    [2, 1, 0, 1, 0, 2],
    [1, 1, 1, 0, 2, 0],
    [2, 0, 2, 1, 1, 0],
];

fn all_lists(s: usize, max_len: usize) -> Vec<Vec<Entry>> {
    let mut out = Vec::new();
    for sel in ordered_lists(s, 1, max_len) {
        for labs in indices(&vec![4; sel.len()]) {
            out.push(sel.iter().copied().zip(labs).collect());
        }
    }
    out
}

fn list_str(list: &[Entry]) -> String {
    list_str_n(list, &PLAIN)
}

fn list_str_n(list: &[Entry], nm: &Naming) -> String {
    list.iter()
        .map(|(s, l)| if *l == 0 { nm.names[*s].to_string() } else { format!("{}={}", nm.names[*s], nm.labels[*l]) })
        .collect::<Vec<_>>()
        .join(",")
}

fn file_str_n(list: &[Entry], nm: &Naming) -> String {
    list.iter()
        .map(|(s, l)| if *l == 0 { format!("{}\n", nm.names[*s]) } else { format!("{}\t{}\n", nm.names[*s], nm.labels[*l]) })
        .collect()
}

/// Reference: axis j = j-th distinct label in list order; unlabelled entries form one population.
fn reference(list: &[Entry]) -> RefArray {
    let mut order: Vec<usize> = Vec::new();
    for (_, l) in list {
        if !order.contains(l) {
            order.push(*l);
        }
    }
    let sizes: Vec<usize> = order.iter().map(|l| list.iter().filter(|e| e.1 == *l).count()).collect();
    let shape: Vec<usize> = sizes.iter().map(|n| 2 * n + 1).collect();
    let mut out = RefArray::zeros(&shape);
    for rec in 0..6 {
        let mut idx = vec![0usize; order.len()];
        for (s, l) in list {
            let axis = order.iter().position(|x| x == l).unwrap();
            idx[axis] += COLS[*s][rec];
        }
        out.add(&idx, 1.0);
    }
    out
}

fn rows_for(columns: &[usize]) -> Vec<Vec<sfs_core::input::genotype::Result>> {
    (0..6)
        .map(|rec| {
            columns
                .iter()
                .map(|&s| [Cls::G0, Cls::G1, Cls::G2][COLS[s][rec]].to_result())
                .collect()
        })
        .collect()
}

fn real_lib(list: &[Entry], columns: &[usize]) -> Result<RefArray, String> {
    let names: Vec<String> = columns.iter().map(|s| format!("s{s}")).collect();
    let source = MemReader::with_names(&names, rows_for(columns));
    let samples: Vec<(Sample, Population)> = list
        .iter()
        .map(|(s, l)| {
            (
                Sample::from(format!("s{s}")),
                if *l == 0 { Population::Unnamed } else { Population::from(Some(LABELS[*l])) },
            )
        })
        .collect();
    let mut reader = site::reader::Builder::default()
        .set_samples(Some(Samples::List(samples)))
        .build(Box::new(source))
        .map_err(|e| e.to_string())?;
    run_reader(&mut reader).map(|c| c.spectrum)
}

fn samples_of(list: &[Entry]) -> Vec<(Sample, Population)> {
    list.iter().map(|(s, l)| (Sample::from(format!("s{s}")), if *l == 0 { Population::Unnamed } else { Population::from(Some(LABELS[*l])) })).collect()
}

/// Setter histories of the site reader builder: `set_samples` called once, twice (with another list,
/// with `None`) - the last call decides; an empty list is an error, from a list as from a file.
fn check_builder_histories() -> (u64, Vec<Viol>) {
    let lists: Vec<Vec<Entry>> = vec![vec![(0, 1), (1, 2)], vec![(2, 0), (0, 0), (1, 3)], vec![(1, 1)], vec![(2, 2), (1, 2), (0, 1)]];
    let mut viols = Vec::new();
    let mut n = 0u64;
    let build = |settings: &[Option<&Vec<Entry>>]| -> Result<RefArray, String> {
        let mut b = site::reader::Builder::default();
        for s in settings {
            b = b.set_samples(s.map(|l| Samples::List(samples_of(l))));
        }
        let names: Vec<String> = (0..3).map(|s| format!("s{s}")).collect();
        let mut reader = b.build(Box::new(MemReader::with_names(&names, rows_for(&[0, 1, 2])))).map_err(|e| e.to_string())?;
        run_reader(&mut reader).map(|c| c.spectrum)
    };
    let all_unnamed: Vec<Entry> = vec![(0, 0), (1, 0), (2, 0)];
    let mut choices: Vec<Option<&Vec<Entry>>> = lists.iter().map(Some).collect();
    choices.push(None);
    for a in &choices {
        for b in &choices {
            for c in [None, Some(&choices[0]), Some(&choices[4])] {
                n += 1;
                let mut settings = vec![*a, *b];
                if let Some(c) = c {
                    settings.push(*c);
                }
                let last = settings.last().unwrap().unwrap_or(&all_unnamed);
                let expect = reference(last);
                let got = crate::verdict::catch(|| build(&settings));
                if !matches!(&got, Ok(Ok(g)) if *g == expect) {
                    viols.push((
                        "C09|lib|builder-history".to_string(),
                        format!("set_samples called with {:?} in turn: {got:?}, the last call asks for {:?} {:?}", settings.iter().map(|s| s.map(|l| list_str(l))).collect::<Vec<_>>(), expect.shape, expect.data),
                        J::obj([("kind", J::s("c09-builder"))]),
                    ));
                }
            }
        }
    }
    // an empty list is an error - as a list, and after an earlier non-empty one
    for earlier in [None, Some(&lists[0])] {
        n += 1;
        let mut b = site::reader::Builder::default();
        if let Some(l) = earlier {
            b = b.set_samples(Some(Samples::List(samples_of(l))));
        }
        b = b.set_samples(Some(Samples::List(Vec::new())));
        let names: Vec<String> = (0..3).map(|s| format!("s{s}")).collect();
        let r = crate::verdict::catch(|| b.build(Box::new(MemReader::with_names(&names, rows_for(&[0, 1, 2])))).map(|_| ()).map_err(|e| e.to_string()));
        if !matches!(r, Ok(Err(_))) {
            viols.push(("C09|lib|empty-list-accepted".to_string(), format!("a site reader built from an empty sample list (after {:?}): {r:?}, expected an error", earlier.map(|l| list_str(l))), J::obj([("kind", J::s("c09-builder"))])));
        }
    }
    (n, viols)
}

/// `sample::Map::from_reader` on streams that fail or turn out not to be text part-way, under several
/// chunkings: an error, or the complete list - never a shorter list.
pub(super) fn check_map_from_reader() -> (u64, Vec<Viol>) {
    use crate::seam::{ChunkedReader, Schedule};
    use sfs_core::input::sample::Map;
    use std::sync::Arc;
    let text = "s0\tA\ns1\tB\ns2\tA\ns3\ns4\tB\n";
    let full: Vec<String> = vec!["s0", "s1", "s2", "s3", "s4"].into_iter().map(String::from).collect();
    let names = |m: &Map| -> Vec<String> { m.samples().map(|s| s.as_ref().to_string()).collect() };
    let mut viols = Vec::new();
    let mut n = 0u64;
    let bytes = Arc::new(text.as_bytes().to_vec());
    for k in [0usize, 1, 2, 3, 5, 7, 64] {
        // complete stream in chunks of k bytes (0 = one piece)
        n += 1;
        let sched = if k == 0 { Schedule::whole() } else { Schedule::periodic(k) };
        let (r, _) = ChunkedReader::new(bytes.clone(), sched);
        match crate::verdict::catch(|| Map::from_reader(r).map(|m| (names(&m), m.number_of_populations()))) {
            Ok(Ok((got, pops))) if got == full && pops == 3 => {}
            other => viols.push(("C09|lib|map-from-reader|chunked".to_string(), format!("the samples stream in chunks of {k} bytes: {other:?}, expected the five samples in three populations"), J::obj([("kind", J::s("c09-map")), ("chunk", J::u(k))]))),
        }
        // the stream fails at every offset
        for at in 0..text.len() {
            n += 1;
            let sched = (if k == 0 { Schedule::whole() } else { Schedule::periodic(k) }).with_fault(at);
            let (r, _) = ChunkedReader::new(bytes.clone(), sched);
            match crate::verdict::catch(|| Map::from_reader(r).map(|m| names(&m))) {
                Ok(Err(_)) => {}
                Ok(Ok(got)) if got == full => {}
                other => {
                    if viols.len() < 6 {
                        viols.push(("C09|lib|map-from-reader|failing-stream".to_string(), format!("the samples stream (chunks of {k}) failing at byte {at}: {other:?}, expected an error (or the complete list)"), J::obj([("kind", J::s("c09-map")), ("chunk", J::u(k)), ("fault_at", J::u(at))])));
                    }
                }
            }
        }
    }
    // a line that is not UTF-8, at every line position
    for line in 0..5usize {
        n += 1;
        let mut lines: Vec<Vec<u8>> = text.lines().map(|l| l.as_bytes().to_vec()).collect();
        lines[line] = vec![b's', 0xe9, b'\t', b'A'];
        let mut data = lines.join(&b'\n');
        data.push(b'\n');
        match crate::verdict::catch(|| Map::from_reader(&data[..]).map(|m| names(&m))) {
            Ok(Err(_)) => {}
            other => viols.push(("C09|lib|map-from-reader|not-utf8".to_string(), format!("a samples stream whose line {line} is not UTF-8: {other:?}, expected an error"), J::obj([("kind", J::s("c09-map")), ("bad_line", J::u(line))]))),
        }
    }
    (n, viols)
}

fn nontrivial(list: &[Entry]) -> bool {
    let mut order: Vec<usize> = Vec::new();
    for (_, l) in list {
        if !order.contains(l) {
            order.push(*l);
        }
    }
    if order.len() < 2 {
        return false;
    }
    let mut sorted = order.clone();
    sorted.sort();
    let cols: Vec<usize> = list.iter().map(|e| e.0).collect();
    let mut cs = cols.clone();
    cs.sort();
    order != sorted || cols != cs
}

fn list_class(list: &[Entry]) -> String {
    let mut order: Vec<usize> = Vec::new();
    for (_, l) in list {
        if !order.contains(l) {
            order.push(*l);
        }
    }
    let mixed = list.iter().any(|e| e.1 == 0) && list.iter().any(|e| e.1 != 0);
    format!("{}pops{}", order.len(), if mixed { ",named+unnamed" } else { "" })
}

fn case_j(list: &[Entry], columns: &[usize]) -> J {
    case_jn(list, columns, &PLAIN)
}

fn case_jn(list: &[Entry], columns: &[usize], nm: &Naming) -> J {
    J::obj([
        ("kind", J::s("c09")),
        ("samples", J::s(list_str(list))),
        ("columns", J::usizes(columns)),
        ("naming", J::s(nm.id)),
        ("samples_as_spelled", J::s(list_str_n(list, nm))),
    ])
}

fn eval_lib(list: &[Entry], columns: &[usize]) -> Option<Viol> {
    let expect = reference(list);
    match real_lib(list, columns) {
        Ok(g) if g == expect => None,
        Ok(g) => Some((
            format!("C09|lib|spectrum-wrong|{}|{}", list_class(list), if columns.windows(2).all(|w| w[0] < w[1]) { "columns-in-order" } else { "columns-permuted" }),
            format!("list '{}' with input columns {columns:?}: got {:?} {:?}, expected {:?} {:?}", list_str(list), g.shape, g.data, expect.shape, expect.data),
            case_j(list, columns),
        )),
        Err(e) => Some((
            format!("C09|lib|failed|{}", norm_msg(&e)),
            format!("list '{}' with input columns {columns:?}: {e}", list_str(list)),
            case_j(list, columns),
        )),
    }
}

fn vcf_for(columns: &[usize]) -> Vec<u8> {
    vcf_for_n(columns, &PLAIN)
}

/// As `vcf_for`, with the columns in `odd` carrying haploid / triploid calls: harmless as long as
/// those samples are not listed.
fn vcf_for_odd(columns: &[usize], odd: &[usize]) -> Vec<u8> {
    let mut cs = CallSet::new(columns.len());
    cs.samples = columns.iter().map(|s| format!("s{s}")).collect();
    for rec in 0..6 {
        let gts: Vec<String> = columns
            .iter()
            .map(|&s| if odd.contains(&s) { ["0", "1/0/1", "1", "0|0|0"][(rec + s) % 4].to_string() } else { [Cls::G0, Cls::G1, Cls::G2][COLS[s][rec]].spell(rec + s).to_string() })
            .collect();
        cs.push_gts(&gts);
    }
    to_vcf(&cs).0
}

/// Genotype spellings of the column-permutation grid: called, missing, multiallelic, haploid.
const ODD_GTS: [&str; 4] = ["0/1", "./.", "1/2", "1"];

/// One record whose three listed samples carry the genotypes `row` (indices into `ODD_GTS`), between
/// two ordinary records, with the sample columns in every order: reordering the columns of the input
/// must change neither success / failure nor stdout - also when the record is skipped or faulty.
fn eval_cli_odd_columns(row: &[usize; 3], labelled: bool, project: bool, scratch: &Scratch) -> Option<Viol> {
    let list = if labelled { "s0=A,s1=B,s2=A" } else { "s0,s1,s2" };
    let mut args: Vec<&str> = vec!["create", "--samples", list];
    if project {
        args.extend(["--project-shape", if labelled { "3,2" } else { "4" }]);
    }
    let mut outcomes: Vec<(Vec<usize>, bool, Vec<u8>, String)> = Vec::new();
    for perm in crate::enumerate::permutations(3) {
        let mut cs = CallSet::new(3);
        cs.samples = perm.iter().map(|s| format!("s{s}")).collect();
        for rec in 0..3 {
            let gts: Vec<String> = perm.iter().map(|&s| if rec == 1 { ODD_GTS[row[s]].to_string() } else { [Cls::G0, Cls::G1, Cls::G2][COLS[s][rec]].spell(rec + s).to_string() }).collect();
            cs.push_gts(&gts);
            let last = cs.records.len() - 1;
            cs.records[last].alts = vec!["C", "G"];
        }
        let o = run_sfs(&args, Stdin::Bytes(&to_vcf(&cs).0), scratch);
        outcomes.push((perm, o.ok(), o.stdout.clone(), o.stderr_str().lines().last().unwrap_or("").chars().take(160).collect()));
    }
    let first = &outcomes[0];
    // a haploid genotype in a listed sample must fail the run in every column order
    let must_fail = row.contains(&3);
    let bad = outcomes.iter().find(|o| o.1 != first.1 || o.2 != first.2 || (must_fail && o.1));
    bad.map(|b| {
        (
            format!("C09|cli|column-order-matters|{}{}", if must_fail { "non-diploid-listed" } else { "skipped-listed" }, if project { "|project" } else { "" }),
            format!(
                "{args:?}, middle record with genotypes {:?} for s0,s1,s2: columns {:?} give {} {:?} ({}), columns {:?} give {} {:?} ({}){}",
                row.iter().map(|g| ODD_GTS[*g]).collect::<Vec<_>>(),
                first.0,
                if first.1 { "success" } else { "failure" },
                String::from_utf8_lossy(&first.2),
                first.3,
                b.0,
                if b.1 { "success" } else { "failure" },
                String::from_utf8_lossy(&b.2),
                b.3,
                if must_fail { "; a listed sample is not diploid, so every order must fail" } else { "" }
            ),
            J::obj([("kind", J::s("c09-odd-columns")), ("row", J::usizes(row)), ("labelled", J::Bool(labelled)), ("project", J::Bool(project))]),
        )
    })
}

/// Lists in which label 1 is spelled as the empty string (`sample=` / a trailing tab). The statement
/// does not say whether an empty label is a label: accepted are a diagnosed error, the empty string as
/// a population of its own, and the empty string as "no label"; `--samples` and `--samples-file` must
/// agree, and nothing else is a correct spectrum.
fn eval_cli_empty_label(list: &[Entry], scratch: &Scratch) -> Option<Viol> {
    let nm = Naming { id: "empty-label", names: ["s0", "s1", "s2", "s3", "s4"], labels: ["", "", "B", "C"] };
    let vcf = vcf_for(&[0, 1, 2]);
    let spelled = list_str_n(list, &nm);
    let a = run_sfs(&["create", "--samples", &spelled], Stdin::Bytes(&vcf), scratch);
    let path = scratch.file(".samples", file_str_n(list, &nm).as_bytes());
    let b = run_sfs(&["create", "--samples-file", path.to_str().unwrap()], Stdin::Bytes(&vcf), scratch);
    let _ = std::fs::remove_file(path);
    let as_unnamed: Vec<Entry> = list.iter().map(|(s, l)| (*s, if *l == 1 { 0 } else { *l })).collect();
    let case = || J::obj([("kind", J::s("c09-empty-label")), ("samples", J::s(spelled.clone())), ("list", J::arr(list.iter().map(|(s, l)| J::usizes(&[*s, *l]))))]);
    if a.code != b.code || a.stdout != b.stdout {
        return Some(("C09|cli|samples-file-differs|empty-label".into(), format!("--samples '{spelled}' gives {} {:?}, the same content as a file gives {} {:?}", a.status_str(), a.stdout_str(), b.status_str(), b.stdout_str()), case()));
    }
    if !a.ok() {
        return if a.diagnosed_error() && a.stdout.is_empty() { None } else { Some(("C09|cli|empty-label|undiagnosed".into(), format!("--samples '{spelled}': {} {}", a.status_str(), a.stderr_str().trim()), case())) };
    }
    match parse_out(&a) {
        Ok(g) if g == reference(list) || g == reference(&as_unnamed) => None,
        other => Some((
            "C09|cli|empty-label|neither-reading".into(),
            format!("--samples '{spelled}': {other:?}; with the empty label as its own population the spectrum is {:?} {:?}, as no label {:?} {:?}", reference(list).shape, reference(list).data, reference(&as_unnamed).shape, reference(&as_unnamed).data),
            case(),
        )),
    }
}

/// Sample names may contain `=` (the VCF header allows it). In a samples file the columns are
/// separated by a tab, so such a name is a name, with or without a label after it.
fn eval_cli_equals_in_names(list: &[Entry], scratch: &Scratch) -> Option<Viol> {
    let nm = Naming { id: "equals-in-names", names: ["s0=x", "s0", "x=s1", "s3", "s4"], labels: ["", "A", "B=1", "s0"] };
    let vcf = vcf_for_n(&[0, 1, 2], &nm);
    let path = scratch.file(".samples", file_str_n(list, &nm).as_bytes());
    let o = run_sfs(&["create", "--samples-file", path.to_str().unwrap()], Stdin::Bytes(&vcf), scratch);
    let _ = std::fs::remove_file(path);
    match parse_out(&o) {
        Ok(g) if g == reference(list) => None,
        other => Some((
            "C09|cli|samples-file|equals-in-names".to_string(),
            format!("--samples-file with the lines {:?}: {other:?}, expected {:?} {:?}", file_str_n(list, &nm), reference(list).shape, reference(list).data),
            J::obj([("kind", J::s("c09-equals-names")), ("list", J::arr(list.iter().map(|(s, l)| J::usizes(&[*s, *l]))))]),
        )),
    }
}

fn vcf_for_n(columns: &[usize], nm: &Naming) -> Vec<u8> {
    let mut cs = CallSet::new(columns.len());
    cs.samples = columns.iter().map(|s| nm.names[*s].to_string()).collect();
    for rec in 0..6 {
        let gts: Vec<&str> = columns.iter().map(|&s| [Cls::G0, Cls::G1, Cls::G2][COLS[s][rec]].spell(rec + s)).collect();
        cs.push_gts(&gts);
    }
    to_vcf(&cs).0
}

fn eval_cli(list: &[Entry], columns: &[usize], scratch: &Scratch) -> Vec<Viol> {
    eval_cli_n(list, columns, &PLAIN, scratch)
}

fn eval_cli_n(list: &[Entry], columns: &[usize], nm: &Naming, scratch: &Scratch) -> Vec<Viol> {
    let vcf = vcf_for_n(columns, nm);
    let expect = reference(list);
    let mut v = Vec::new();
    let spelled = list_str_n(list, nm);
    let tag = if nm.id == "plain" { String::new() } else { format!("|{}", nm.id) };
    let a = run_sfs(&["create", "--samples", &spelled], Stdin::Bytes(&vcf), scratch);
    match parse_out(&a) {
        Ok(g) if g == expect => {}
        other => v.push((
            format!("C09|cli|--samples-wrong|{}{tag}", list_class(list)),
            format!("create --samples '{spelled}' (columns {columns:?}): {other:?}, expected {:?} {:?}", expect.shape, expect.data),
            case_jn(list, columns, nm),
        )),
    }
    let path = scratch.file(".samples", file_str_n(list, nm).as_bytes());
    let b = run_sfs(&["create", "--samples-file", path.to_str().unwrap()], Stdin::Bytes(&vcf), scratch);
    let _ = std::fs::remove_file(path);
    if nm.id == "plain" {
        // the same lines with other line endings: CRLF, no final newline, both, mixed
        let lf = file_str_n(list, nm);
        let crlf = lf.replace('\n', "\r\n");
        let mut mixed = String::new();
        for (i, l) in lf.lines().enumerate() {
            mixed.push_str(l);
            mixed.push_str(if i % 2 == 0 { "\r\n" } else { "\n" });
        }
        let variants: [(&str, String); 4] = [
            ("crlf", crlf.clone()),
            ("no-final-newline", lf.trim_end_matches('\n').to_string()),
            ("crlf-no-final-newline", crlf.trim_end_matches("\r\n").to_string()),
            ("mixed-endings", mixed),
        ];
        // the samples file need not be a regular file: a named pipe (`-S <(...)`) has the same content
        if list.iter().map(|e| e.0 + 2 * e.1).sum::<usize>() % 4 == 0 {
            let c = crate::cli::run_sfs_fifo_at(&["create", "--samples-file", "{FIFO}"], lf.as_bytes(), ".samples", Stdin::Bytes(&vcf), scratch);
            if c.stdout != a.stdout || c.code != a.code {
                v.push((
                    "C09|cli|samples-file-as-fifo".to_string(),
                    format!("--samples '{spelled}' gives {:?} but the same lines read from a named pipe give {} {:?} {}", a.stdout_str(), c.status_str(), c.stdout_str(), c.stderr_str().trim()),
                    case_jn(list, columns, nm),
                ));
            }
        }
        for (what, text) in variants {
            let path = scratch.file(".samples", text.as_bytes());
            let c = run_sfs(&["create", "--samples-file", path.to_str().unwrap()], Stdin::Bytes(&vcf), scratch);
            let _ = std::fs::remove_file(path);
            if c.stdout != a.stdout || c.code != a.code {
                v.push((
                    format!("C09|cli|samples-file-line-endings|{what}"),
                    format!("--samples '{spelled}' gives {:?} but the same lines as a samples file with {what} give {} {:?} {}", a.stdout_str(), c.status_str(), c.stdout_str(), c.stderr_str().trim()),
                    case_jn(list, columns, nm),
                ));
            }
        }
    }
    if b.stdout != a.stdout || b.code != a.code {
        v.push((
            format!("C09|cli|samples-file-differs|{}{tag}", list_class(list)),
            format!("--samples '{spelled}' gives {:?} but the same content as --samples-file gives {} {:?} {}", a.stdout_str(), b.status_str(), b.stdout_str(), b.stderr_str().trim()),
            case_jn(list, columns, nm),
        ));
    }
    v
}

/// A list in which one (sample, label) entry is repeated verbatim names the same samples as the
/// list without the repetition: either the same spectrum, or a diagnosed error (both readings of
/// "listed samples" are accepted; a longer axis for the repeated sample is not).
fn eval_cli_repeated(list: &[Entry], dup: usize, at: usize, scratch: &Scratch) -> Vec<Viol> {
    let columns: Vec<usize> = (0..3).collect();
    let vcf = vcf_for(&columns);
    let mut rep = list.to_vec();
    rep.insert(at, list[dup]);
    let expect = reference(list);
    let mut v = Vec::new();
    let path = scratch.file(".samples", file_str_n(&rep, &PLAIN).as_bytes());
    let runs = [
        ("--samples", run_sfs(&["create", "--samples", &list_str(&rep)], Stdin::Bytes(&vcf), scratch)),
        ("--samples-file", run_sfs(&["create", "--samples-file", path.to_str().unwrap()], Stdin::Bytes(&vcf), scratch)),
    ];
    let _ = std::fs::remove_file(path);
    for (how, o) in runs {
        let fine = match parse_out(&o) {
            Ok(g) => g == expect,
            Err(_) => o.diagnosed_error() && o.stdout.is_empty(),
        };
        if !fine {
            v.push((
                format!("C09|cli|repeated-entry-changes-result|{how}"),
                format!("create {how} '{}' (entry {dup} repeated at {at}): {} {:?} {}; expected the result of '{}' = {:?} {:?} (or an error)", list_str(&rep), o.status_str(), o.stdout_str(), o.stderr_str().trim(), list_str(list), expect.shape, expect.data),
                J::obj([("kind", J::s("c09-rep")), ("samples", J::s(list_str(list))), ("dup", J::u(dup)), ("at", J::u(at))]),
            ));
        }
    }
    v
}

/// Reference for an explicit assignment: axes are the labels in `order`; `assign` maps samples to labels.
fn reference_assign(order: &[usize], assign: &[Entry]) -> RefArray {
    let sizes: Vec<usize> = order.iter().map(|l| assign.iter().filter(|e| e.1 == *l).count()).collect();
    let shape: Vec<usize> = sizes.iter().map(|n| 2 * n + 1).collect();
    let mut out = RefArray::zeros(&shape);
    for rec in 0..6 {
        let mut idx = vec![0usize; order.len()];
        for (s, l) in assign {
            idx[order.iter().position(|x| x == l).unwrap()] += COLS[*s][rec];
        }
        out.add(&idx, 1.0);
    }
    out
}

/// A list that names a sample twice with *different* labels is contradictory. The statement does
/// not say which label wins, so three outcomes are accepted: a diagnosed error, the spectrum in
/// which the first label of every sample counts, or the one in which the last label counts (axes
/// by first appearance of the labels in the list as written; a label left without samples may be absent). Anything else - an axis whose
/// length does not match the samples counted on it, misplaced counts, a panic - is a violation.
fn eval_cli_conflicting(list: &[Entry], scratch: &Scratch) -> Vec<Viol> {
    let columns: Vec<usize> = (0..3).collect();
    let vcf = vcf_for(&columns);
    let mut order: Vec<usize> = Vec::new();
    for (_, l) in list {
        if !order.contains(l) {
            order.push(*l);
        }
    }
    let mut first: Vec<Entry> = Vec::new();
    let mut last: Vec<Entry> = Vec::new();
    for e in list {
        if !first.iter().any(|f| f.0 == e.0) {
            first.push(*e);
        }
        last.retain(|f| f.0 != e.0);
        last.push(*e);
    }
    // last-label assignment over the labels that still have a sample (a label that lost all its
    // samples has nothing to count; the tool either reports an error or leaves that axis out)
    let live: Vec<usize> = order.iter().copied().filter(|l| last.iter().any(|e| e.1 == *l)).collect();
    let accepted = vec![reference(&first), reference_assign(&live, &last)];
    let mut v = Vec::new();
    let path = scratch.file(".samples", file_str_n(list, &PLAIN).as_bytes());
    let runs = [
        ("--samples", run_sfs(&["create", "--samples", &list_str(list)], Stdin::Bytes(&vcf), scratch)),
        ("--samples-file", run_sfs(&["create", "--samples-file", path.to_str().unwrap()], Stdin::Bytes(&vcf), scratch)),
    ];
    let _ = std::fs::remove_file(path);
    for (how, o) in runs {
        let fine = match parse_out(&o) {
            Ok(g) => accepted.contains(&g),
            Err(_) => o.diagnosed_error() && o.stdout.is_empty(),
        };
        if !fine {
            v.push((
                format!("C09|cli|contradictory-list-gives-inconsistent-spectrum|{how}{}", if o.panicked() { "|panic" } else { "" }),
                format!("create {how} '{}': {} {:?} {}; accepted: an error, or {:?}", list_str(list), o.status_str(), o.stdout_str(), o.stderr_str().trim(), accepted.iter().map(|a| (&a.shape, &a.data)).collect::<Vec<_>>()),
                J::obj([("kind", J::s("c09-conflict")), ("samples", J::s(list_str(list)))]),
            ));
        }
    }
    v
}

fn eval_cli_errors(scratch: &Scratch) -> (u64, Vec<Viol>) {
    let vcf = vcf_for(&[0, 1, 2]);
    let mut v = Vec::new();
    let mut n = 0;
    let mut must_fail = |args: &[&str], what: &str, v: &mut Vec<Viol>| {
        let o = run_sfs(args, Stdin::Bytes(&vcf), scratch);
        if o.ok() || !o.stdout.is_empty() || !o.diagnosed_error() {
            v.push((
                format!("C09|cli|invalid-list-accepted|{what}"),
                format!("{args:?}: {} stdout {:?} stderr {:?}", o.status_str(), o.stdout_str(), o.stderr_str()),
                J::obj([("kind", J::s("c09-err")), ("argv", J::strs(args))]),
            ));
        }
    };
    // empty entries are not sample names: the same list in a samples file names the unknown sample ""
    for empty_entry in ["s0,,s1", "s0,s1,", ",s0", "s0=A,,s1=B", "=A,s0=B", ","] {
        n += 1;
        must_fail(&["create", "--samples", empty_entry], "empty-entry", &mut v);
    }
    for absent in ["s9", "s0,s9", "s9=A,s1=B", "s1=A,S0=A", "s0,s1,s2,s3"] {
        n += 1;
        must_fail(&["create", "--samples", absent], "absent-sample", &mut v);
    }
    // an absent sample at every position of every list of 1..4 entries over {s0,s1,s2,absent}:
    // in particular lists with exactly as many entries as the input has sample columns
    for sel in ordered_lists(4, 1, 4) {
        if !sel.contains(&3) {
            continue;
        }
        for labelled in [false, true] {
            let spelled: Vec<String> = sel
                .iter()
                .enumerate()
                .map(|(i, s)| {
                    let name = if *s == 3 { "s9".to_string() } else { format!("s{s}") };
                    if labelled { format!("{name}={}", ["A", "B"][i % 2]) } else { name }
                })
                .collect();
            n += 1;
            must_fail(&["create", "--samples", &spelled.join(",")], &format!("absent-sample|{}-entries-vs-3-columns", sel.len()), &mut v);
        }
    }
    let empty = scratch.file(".samples", b"");
    n += 1;
    must_fail(&["create", "--samples-file", empty.to_str().unwrap()], "empty-file", &mut v);
    let absent = scratch.file(".samples", b"s0\tA\nsX\tB\n");
    n += 1;
    must_fail(&["create", "--samples-file", absent.to_str().unwrap()], "absent-sample-in-file", &mut v);
    n += 1;
    must_fail(&["create", "--samples-file", "/nonexistent/file.samples"], "missing-file", &mut v);
    (n, v)
}

pub fn run(tier: Tier) -> i32 {
    let mut rep = Report::new("C09", tier, "exploration");
    rep.rule = "every ordered list of distinct samples (of 4; thorough: of 5, at most 4 listed) x every labelling of its entries with {unlabelled, A, B, C}; 6-record call set whose sample columns are pairwise different, so every axis permutation and subset is visible in the output. Oracle: axis j = j-th distinct label in list order (unlabelled = one population), length 2*count+1, every cell from the genotype columns. All 24 permutations of the input sample columns must leave the result unchanged. L2: the lists as --samples and as --samples-file (byte-identical), absent sample / empty file => error. Non-trivial = >=2 labels whose first-appearance order differs from sorted order, or list order differs from column order.".into();

    let s = tier.pick(4, 5);
    let lists = all_lists(s, 4);
    let cols: Vec<usize> = (0..s).collect();
    let res = par_map(lists.len(), |i| eval_lib(&lists[i], &cols));
    for v in res.into_iter().flatten() {
        rep.violation(v.0, v.1, v.2);
    }
    rep.part(Part {
        name: "lib: every labelled list".into(),
        evaluations: lists.len() as u64,
        nontrivial: lists.iter().filter(|l| nontrivial(l)).count() as u64,
        note: format!("{} ordered labelled lists over {s} samples", lists.len()),
        exhaustive: true,
        extra: vec![],
    });
    rep.sample(J::obj([
        ("samples", J::s("s2=B,s0,s3=B,s1=A")),
        ("expected_shape", J::usizes(&reference(&[(2, 2), (0, 0), (3, 2), (1, 1)]).shape)),
        ("expected", J::f64s(&reference(&[(2, 2), (0, 0), (3, 2), (1, 1)]).data)),
    ]));

    // column permutations
    let lists3 = all_lists(3, 3);
    let mut jobs: Vec<(Vec<Entry>, Vec<usize>)> = Vec::new();
    for l in &lists3 {
        for p in permutations(3) {
            jobs.push((l.clone(), p));
        }
    }
    let perms4 = permutations(4);
    let stride = if tier.thorough() { 1 } else { 39 };
    for (i, l) in all_lists(4, 4).iter().enumerate() {
        if i % stride == 0 {
            for p in &perms4 {
                jobs.push((l.clone(), p.clone()));
            }
        }
    }
    let res = par_map(jobs.len(), |i| eval_lib(&jobs[i].0, &jobs[i].1));
    for v in res.into_iter().flatten() {
        rep.violation(v.0, v.1, v.2);
    }
    rep.part(Part {
        name: "lib: permutations of the input sample columns".into(),
        evaluations: jobs.len() as u64,
        nontrivial: jobs.iter().filter(|j| !j.1.windows(2).all(|w| w[0] < w[1])).count() as u64,
        note: format!("all {} lists of 3 samples x 6 column orders; {} of 4 samples x 24 column orders", lists3.len(), if tier.thorough() { "all lists".to_string() } else { "every 39th list".to_string() }),
        exhaustive: true,
        extra: vec![],
    });

    // L2
    let scratch = Scratch::new("c09");
    let mut cj: Vec<(Vec<Entry>, Vec<usize>)> = Vec::new();
    for (i, l) in lists3.iter().enumerate() {
        let p = permutations(3)[i % 6].clone();
        cj.push((l.clone(), p));
    }
    if tier.thorough() {
        for (i, l) in all_lists(4, 4).iter().enumerate() {
            cj.push((l.clone(), perms4[i % 24].clone()));
        }
    } else {
        for (i, l) in all_lists(4, 4).iter().enumerate() {
            if i % 16 == 0 {
                cj.push((l.clone(), perms4[(i / 16) % 24].clone()));
            }
        }
    }
    let res = par_map(cj.len(), |i| eval_cli(&cj[i].0, &cj[i].1, &scratch));
    for v in res.into_iter().flatten() {
        rep.violation(v.0, v.1, v.2);
    }
    rep.part(Part {
        name: "cli: --samples and --samples-file".into(),
        evaluations: 7 * cj.len() as u64,
        nontrivial: 2 * cj.iter().filter(|c| nontrivial(&c.0)).count() as u64,
        note: "every list of 3 samples (and a slice / all of 4) as --samples and as --samples-file (LF, CRLF, no final newline, CRLF without final newline, mixed endings; for a quarter of the lists also from a named pipe), input columns permuted".into(),
        exhaustive: true,
        extra: vec![],
    });
    // scale: thousands of listed samples (a samples file beyond 64 KiB) and more than 65 536 of them
    {
        let mut n_eval = 0u64;
        for (n_samples, n_b) in [(4200usize, 30usize), (if tier.thorough() { 70_000 } else { 65_546 }, 10)] {
            // genotype of sample j at record r; population B = the last n_b samples
            let gt = |j: usize, r: usize| -> usize { (j * (r + 3) + r * r + j / 7) % 3 };
            let mut cs = CallSet::new(n_samples);
            cs.samples = (0..n_samples).map(|j| format!("sample{j:07}xyz")).collect();
            let n_rec = 4usize;
            for r in 0..n_rec {
                let gts: Vec<&str> = (0..n_samples).map(|j| ["0/0", "0|1", "1/1"][gt(j, r)]).collect();
                cs.push_gts(&gts);
            }
            let vcf = to_vcf(&cs).0;
            let n_a = n_samples - n_b;
            let mut expect = RefArray::zeros(&[2 * n_a + 1, 2 * n_b + 1]);
            for r in 0..n_rec {
                let a: usize = (0..n_a).map(|j| gt(j, r)).sum();
                let b: usize = (n_a..n_samples).map(|j| gt(j, r)).sum();
                expect.add(&[a, b], 1.0);
            }
            let line = |j: usize| format!("{}\t{}\n", cs.samples[j], if j < n_a { "A" } else { "B" });
            // (i) column order; (ii) the first A sample first, then everything else reversed (same first-appearance order of labels)
            let in_order: String = (0..n_samples).map(line).collect();
            let reordered: String = std::iter::once(0).chain((1..n_samples).rev()).map(line).collect();
            let mut outs = Vec::new();
            for (what, text) in [("column order", &in_order), ("reordered", &reordered)] {
                n_eval += 1;
                let path = scratch.file(".samples", text.as_bytes());
                let o = run_sfs(&["create", "--samples-file", path.to_str().unwrap()], Stdin::Bytes(&vcf), &scratch);
                let _ = std::fs::remove_file(path);
                let sparse = |r: &RefArray| -> Vec<(usize, f64)> { r.data.iter().enumerate().filter(|(_, v)| **v != 0.0).map(|(i, v)| (i, *v)).collect() };
                match parse_out(&o) {
                    Ok(g) if g == expect => {}
                    other => rep.violation(
                        format!("C09|cli|many-samples-wrong|{}", if n_samples > 65_535 { ">65535" } else { "thousands" }),
                        format!("create --samples-file with {n_samples} listed samples ({} bytes, {what}): {:?}; expected shape {:?} with non-zero cells {:?}", text.len(), other.map(|g| (g.shape.clone(), sparse(&g))), expect.shape, sparse(&expect)),
                        J::obj([("kind", J::s("c09-scale")), ("samples", J::u(n_samples)), ("order", J::s(what))]),
                    ),
                }
                outs.push(o.stdout);
            }
            if n_samples < 6000 {
                // the same list as --samples (one argument of ~90 KiB, below the 128 KiB limit per argument)
                n_eval += 1;
                let arg: String = (0..n_samples).map(|j| format!("{}={}", cs.samples[j], if j < n_a { "A" } else { "B" })).collect::<Vec<_>>().join(",");
                let o = run_sfs(&["create", "--samples", &arg], Stdin::Bytes(&vcf), &scratch);
                if o.stdout != outs[0] {
                    rep.violation(
                        "C09|cli|samples-file-differs|thousands-of-samples",
                        format!("{n_samples} samples: --samples gives {} bytes of output ({}), the same list as --samples-file {} bytes", o.stdout.len(), o.status_str(), outs[0].len()),
                        J::obj([("kind", J::s("c09-scale")), ("samples", J::u(n_samples)), ("order", J::s("--samples vs --samples-file"))]),
                    );
                }
            }
        }
        rep.part(Part {
            name: "cli: thousands and tens of thousands of listed samples".into(),
            evaluations: n_eval,
            nontrivial: n_eval,
            note: "4 200 listed samples (samples file of ~90 KiB; also as one --samples argument) and 65 546 (thorough 70 000) listed samples in two populations, as --samples-file in column order and reordered: shape and every cell against the reference".into(),
            exhaustive: true,
            extra: vec![],
        });
    }
    // unlisted columns with non-diploid calls (e.g. haploid chrX calls of samples that are not listed)
    {
        let sub: Vec<&Vec<Entry>> = lists3.iter().filter(|l| l.len() <= 2).collect();
        let res = par_map(sub.len(), |i| {
            let list = sub[i];
            let listed: Vec<usize> = list.iter().map(|e| e.0).collect();
            let odd: Vec<usize> = (0..3).filter(|s| !listed.contains(s)).collect();
            let vcf = vcf_for_odd(&[0, 1, 2], &odd);
            let o = run_sfs(&["create", "--samples", &list_str(list)], Stdin::Bytes(&vcf), &scratch);
            match parse_out(&o) {
                Ok(g) if g == reference(list) => None,
                other => Some((
                    "C09|cli|unlisted-non-diploid-column-matters".to_string(),
                    format!("create --samples {} with haploid/triploid calls in the unlisted columns {odd:?}: {other:?}, expected {:?}", list_str(list), reference(list).data),
                    J::obj([("kind", J::s("c09-odd")), ("samples", J::s(list_str(list)))]),
                )),
            }
        });
        for v in res.into_iter().flatten() {
            rep.violation(v.0, v.1, v.2);
        }
        rep.part(Part {
            name: "cli: non-diploid calls in unlisted columns".into(),
            evaluations: sub.len() as u64,
            nontrivial: sub.len() as u64,
            note: "every list of <=2 of 3 samples while the unlisted columns carry haploid and triploid genotypes: only listed samples count".into(),
            exhaustive: true,
            extra: vec![],
        });
    }
    // the builder and the sample map as a library user drives them
    {
        let (n1, v1) = check_builder_histories();
        let (n2, v2) = check_map_from_reader();
        for (k, w, j) in v1.into_iter().chain(v2) {
            rep.violation(k, w, j);
        }
        rep.part(Part {
            name: "lib: builder setter histories; sample map from failing streams".into(),
            evaluations: n1 + n2,
            nontrivial: n1 + n2,
            note: "set_samples called two and three times with four lists and None in every order (the last call decides), an empty list alone and after a non-empty one (an error); sample::Map::from_reader on a five-line stream in chunks of 1, 2, 3, 5, 7, 64 bytes and in one piece, failing at every byte offset under each chunking, and with each line in turn not UTF-8: the complete list or an error, never a shorter list".into(),
            exhaustive: true,
            extra: vec![],
        });
    }
    // listed columns with missing, multiallelic and non-diploid calls, in every column order
    {
        let mut oj: Vec<([usize; 3], bool, bool)> = Vec::new();
        for a in 0..4usize {
            for b in 0..4usize {
                for c in 0..4usize {
                    for labelled in [false, true] {
                        for project in [false, true] {
                            oj.push(([a, b, c], labelled, project));
                        }
                    }
                }
            }
        }
        let res = par_map(oj.len(), |i| eval_cli_odd_columns(&oj[i].0, oj[i].1, oj[i].2, &scratch));
        for v in res.into_iter().flatten() {
            rep.violation(v.0, v.1, v.2);
        }
        rep.part(Part {
            name: "cli: column orders of records with skipped and non-diploid listed genotypes".into(),
            evaluations: 6 * oj.len() as u64,
            nontrivial: 6 * oj.len() as u64,
            note: "every row of three listed samples over {called, missing, multiallelic, haploid} as the middle of three records x {unlabelled, two populations} x {no projection, projection} x all 6 orders of the sample columns: same success / failure and byte-identical stdout in every order; a haploid listed genotype fails in every order".into(),
            exhaustive: true,
            extra: vec![],
        });
    }
    // the empty string as a label
    {
        let el: Vec<&Vec<Entry>> = lists3.iter().filter(|l| l.iter().any(|e| e.1 == 1)).collect();
        let res = par_map(el.len(), |i| eval_cli_empty_label(el[i], &scratch));
        for v in res.into_iter().flatten() {
            rep.violation(v.0, v.1, v.2);
        }
        rep.part(Part {
            name: "cli: the empty string as a label".into(),
            evaluations: 2 * el.len() as u64,
            nontrivial: 2 * el.len() as u64,
            note: format!("{} lists of <=3 of 3 samples in which one label is spelled as the empty string (`s0=`, a trailing tab in the file): --samples and --samples-file agree; accepted are a diagnosed error, the empty label as a population of its own, or as no label - no other spectrum", el.len()),
            exhaustive: true,
            extra: vec![],
        });
    }
    // `=` inside sample names, in samples files
    {
        let res = par_map(lists3.len(), |i| eval_cli_equals_in_names(&lists3[i], &scratch));
        for v in res.into_iter().flatten() {
            rep.violation(v.0, v.1, v.2);
        }
        rep.part(Part {
            name: "cli: sample names containing '=' in a samples file".into(),
            evaluations: lists3.len() as u64,
            nontrivial: lists3.len() as u64,
            note: format!("{} lists of <=3 of the samples `s0=x`, `s0`, `x=s1` (labelled and unlabelled lines, labels `A`, `B=1`, `s0`) as tab-separated samples files: the spectrum of the plain spelling", lists3.len()),
            exhaustive: true,
            extra: vec![],
        });
    }
    {
        let vcf = vcf_for(&[0, 1, 2]);
        let sp: Vec<(Vec<String>, Vec<u8>)> = lists3.iter().filter(|l| l.len() >= 2).map(|l| (vec!["create".to_string(), "--samples".to_string(), list_str(l)], vcf.clone())).collect();
        super::spelling_part(&mut rep, "C09", "create --samples <list> for every list of two and three entries", &sp, &scratch);
    }
    // spellings of names and labels
    let mut nj: Vec<(usize, usize)> = Vec::new();
    for ni in 1..NAMINGS.len() {
        for li in 0..lists3.len() {
            if tier.thorough() || (li + ni) % 3 == 0 {
                nj.push((ni, li));
            }
        }
    }
    let perms3 = permutations(3);
    let res = par_map(nj.len(), |i| {
        let (ni, li) = nj[i];
        eval_cli_n(&lists3[li], &perms3[(li + ni) % 6], &NAMINGS[ni], &scratch)
    });
    for v in res.into_iter().flatten() {
        rep.violation(v.0, v.1, v.2);
    }
    rep.part(Part {
        name: "cli: spellings of sample names and labels".into(),
        evaluations: 2 * nj.len() as u64,
        nontrivial: 2 * nj.len() as u64,
        note: format!("{} naming schemes (numeric names in non-lexicographic order, labels with blanks sharing a first word, prefix / case-differing labels, numeric labels, names with blanks, labels containing '=', names and labels of ~300 bytes that differ only in their last byte, non-ASCII) x {} lists of 3 samples as --samples and --samples-file; the result must be that of the plain spelling", NAMINGS.len() - 1, if tier.thorough() { "all".to_string() } else { "every third of the".to_string() }),
        exhaustive: true,
        extra: vec![("namings".into(), J::strs(&NAMINGS.iter().map(|n| n.id).collect::<Vec<_>>()))],
    });
    // repeated entries
    let mut rj: Vec<(usize, usize, usize)> = Vec::new();
    for (li, l) in lists3.iter().enumerate() {
        if l.len() > 2 {
            continue;
        }
        for dup in 0..l.len() {
            for at in dup + 1..=l.len() {
                rj.push((li, dup, at));
            }
        }
    }
    let res = par_map(rj.len(), |i| eval_cli_repeated(&lists3[rj[i].0], rj[i].1, rj[i].2, &scratch));
    for v in res.into_iter().flatten() {
        rep.violation(v.0, v.1, v.2);
    }
    rep.part(Part {
        name: "cli: lists repeating an entry".into(),
        evaluations: 2 * rj.len() as u64,
        nontrivial: 2 * rj.len() as u64,
        note: "every list of <=2 of 3 samples with one entry repeated verbatim at every later position: same spectrum as without the repetition, or a diagnosed error".into(),
        exhaustive: true,
        extra: vec![],
    });
    // contradictory lists: a sample named again with a different label
    let mut conf: Vec<Vec<Entry>> = Vec::new();
    for len in 2..=4usize {
        for sel in indices(&vec![3; len]) {
            for labs in indices(&vec![2; len]) {
                let l: Vec<Entry> = sel.iter().copied().zip(labs.iter().map(|x| x + 1)).collect();
                let conflicting = (0..len).any(|i| (0..i).any(|j| l[j].0 == l[i].0 && l[j].1 != l[i].1));
                if conflicting && (tier.thorough() || len < 4 || (sel.iter().sum::<usize>() + labs.iter().sum::<usize>()) % 2 == 0) {
                    conf.push(l);
                }
            }
        }
    }
    let res = par_map(conf.len(), |i| eval_cli_conflicting(&conf[i], &scratch));
    for v in res.into_iter().flatten() {
        rep.violation(v.0, v.1, v.2);
    }
    rep.part(Part {
        name: "cli: contradictory lists".into(),
        evaluations: 2 * conf.len() as u64,
        nontrivial: 2 * conf.len() as u64,
        note: format!("{} lists of 2..4 entries over 3 samples x labels {{A,B}} in which a sample is named again with a different label: a diagnosed error, or the spectrum of the first-label or of the last-label assignment", conf.len()),
        exhaustive: true,
        extra: vec![],
    });
    let (n, v) = eval_cli_errors(&scratch);
    for (k, w, j) in v {
        rep.violation(k, w, j);
    }
    rep.part(Part {
        name: "cli: absent samples, empty list".into(),
        evaluations: n,
        nontrivial: n,
        note: "absent sample (also case-differing; at every position of every list of 1..4 entries, incl. lists as long as the input has columns), empty file, missing file => non-zero exit, diagnostic, empty stdout".into(),
        exhaustive: true,
        extra: vec![],
    });
    rep.assumptions = vec!["reference axis assignment transcribed from the statement (first appearance of labels in list order)".into()];
    rep.finish()
}

pub fn replay(case: &J) -> Option<Vec<String>> {
    if case.get("kind").and_then(|k| k.as_str()) == Some("c09-equals-names") {
        let list: Vec<Entry> = case.get("list")?.as_arr()?.iter().filter_map(|e| e.as_usizes()).map(|e| (e[0], e[1])).collect();
        let scratch = Scratch::new("c09r");
        return Some(eval_cli_equals_in_names(&list, &scratch).into_iter().map(|(k, w, _)| format!("{k} :: {w}")).collect());
    }
    if case.get("kind").and_then(|k| k.as_str()) == Some("c09-empty-label") {
        let list: Vec<Entry> = case.get("list")?.as_arr()?.iter().filter_map(|e| e.as_usizes()).map(|e| (e[0], e[1])).collect();
        let scratch = Scratch::new("c09r");
        return Some(eval_cli_empty_label(&list, &scratch).into_iter().map(|(k, w, _)| format!("{k} :: {w}")).collect());
    }
    if case.get("kind").and_then(|k| k.as_str()) == Some("c09-odd-columns") {
        let r = case.get("row")?.as_usizes()?;
        let scratch = Scratch::new("c09r");
        let b = |k: &str| matches!(case.get(k), Some(J::Bool(true)));
        return Some(eval_cli_odd_columns(&[r[0], r[1], r[2]], b("labelled"), b("project"), &scratch).into_iter().map(|(k, w, _)| format!("{k} :: {w}")).collect());
    }
    let kind = case.get("kind")?.as_str()?.to_string();
    if kind == "c09-err" {
        let scratch = Scratch::new("c09r");
        let args: Vec<String> = case.get("argv")?.as_arr()?.iter().filter_map(|a| a.as_str().map(|s| s.to_string())).collect();
        let a: Vec<&str> = args.iter().map(|s| s.as_str()).collect();
        let o = run_sfs(&a, Stdin::Bytes(&vcf_for(&[0, 1, 2])), &scratch);
        return Some(if o.ok() || !o.stdout.is_empty() || !o.diagnosed_error() { vec![format!("C09|cli|invalid-list-accepted :: {a:?}: {} {:?}", o.status_str(), o.stdout_str())] } else { vec![] });
    }
    if kind == "c09-odd" {
        let spelled = case.get("samples")?.as_str()?.to_string();
        let list: Vec<Entry> = spelled.split(',').map(|e| { let (s, l) = e.split_once('=').map_or((e, ""), |(a, b)| (a, b)); (s[1..].parse::<usize>().unwrap(), LABELS.iter().position(|x| *x == l).unwrap()) }).collect();
        let listed: Vec<usize> = list.iter().map(|e| e.0).collect();
        let odd: Vec<usize> = (0..3).filter(|s| !listed.contains(s)).collect();
        let scratch = Scratch::new("c09r");
        let o = run_sfs(&["create", "--samples", &spelled], Stdin::Bytes(&vcf_for_odd(&[0, 1, 2], &odd)), &scratch);
        return Some(match parse_out(&o) { Ok(g) if g == reference(&list) => vec![], other => vec![format!("C09|cli|unlisted-non-diploid-column-matters :: {other:?}")] });
    }
    if kind != "c09" && kind != "c09-rep" && kind != "c09-conflict" {
        return None;
    }
    let list: Vec<Entry> = case
        .get("samples")?
        .as_str()?
        .split(',')
        .map(|e| {
            let (s, l) = e.split_once('=').map_or((e, ""), |(a, b)| (a, b));
            (s[1..].parse::<usize>().unwrap(), LABELS.iter().position(|x| *x == l).unwrap())
        })
        .collect();
    let scratch = Scratch::new("c09r");
    if kind == "c09-conflict" {
        let v = eval_cli_conflicting(&list, &scratch);
        return Some(v.into_iter().map(|(k, w, _)| format!("{k} :: {w}")).collect());
    }
    if kind == "c09-rep" {
        let v = eval_cli_repeated(&list, case.get("dup")?.as_i64()? as usize, case.get("at")?.as_i64()? as usize, &scratch);
        return Some(v.into_iter().map(|(k, w, _)| format!("{k} :: {w}")).collect());
    }
    let columns = case.get("columns")?.as_usizes()?;
    let nm = naming_by_id(case.get("naming").and_then(|n| n.as_str()).unwrap_or("plain"));
    let mut v: Vec<Viol> = eval_lib(&list, &columns).into_iter().collect();
    v.extend(eval_cli_n(&list, &columns, &nm, &scratch));
    Some(v.into_iter().map(|(k, w, _)| format!("{k} :: {w}")).collect())
}
