//! C04 — marginalization is the array sum over the removed axes.

use sfs_core::array::Axis;

use crate::{
    cli::{run_sfs, Scratch, Stdin},
    enumerate::{ordered_lists, sequences, shapes, subsets},
    json::J,
    par::{par_each, par_map},
    refmodel::RefArray,
    subject::{bit_labels, join_usizes, parse_out, ref_from_spectrum, scs_from_ref, text_of},
    verdict::{catch, norm_msg, Part, Report, Tier},
};

type Viol = (String, String, J);

fn case_j(shape: &[usize], axes: &[usize], labeling: &str) -> J {
    J::obj([
        ("kind", J::s("c04-lib")),
        ("shape", J::usizes(shape)),
        ("axes", J::usizes(axes)),
        ("labeling", J::s(labeling)),
    ])
}

fn labeled(shape: &[usize], labeling: &str) -> RefArray {
    match labeling {
        "bits" => bit_labels(shape),
        "lin" => RefArray::from_fn(shape, |f, _| (f + 1) as f64),
        "sq" => RefArray::from_fn(shape, |f, _| ((f + 1) * (f + 1)) as f64),
        // injective, order-scrambling integer hash below 2^32
        "hash" => RefArray::from_fn(shape, |f, _| {
            ((f as u64 + 1).wrapping_mul(2_654_435_761) % 4_294_967_291) as f64
        }),
        _ => panic!("unknown labeling"),
    }
}

/// All checks for one (shape, labeling): every ordered list of distinct axes of size 1..d-1.
fn check_shape(shape: &[usize], labeling: &str) -> (u64, u64, Vec<Viol>) {
    let d = shape.len();
    let x = labeled(shape, labeling);
    let scs = scs_from_ref(&x);
    let mut evals = 0u64;
    let mut nontrivial = 0u64;
    let mut viols: Vec<Viol> = Vec::new();
    let unequal = shape.iter().any(|&n| n != shape[0]);
    if d < 2 {
        return (0, 0, viols);
    }
    for list in ordered_lists(d, 1, d - 1) {
        evals += 1;
        if list.len() >= 2 || unequal {
            nontrivial += 1;
        }
        let expect = x.marginalize(&list);
        let axes: Vec<Axis> = list.iter().map(|&a| Axis(a)).collect();
        // joint
        match catch(|| scs.marginalize(&axes).map(|s| ref_from_spectrum(&s))) {
            Ok(Ok(got)) => {
                if got != expect {
                    viols.push((
                        format!("C04|lib|joint-wrong|{}", class(&list)),
                        format!(
                            "marginalize({list:?}) of shape {shape:?} ({labeling}) = {:?} {:?}, expected {:?} {:?}",
                            got.shape, got.data, expect.shape, expect.data
                        ),
                        case_j(shape, &list, labeling),
                    ));
                }
            }
            Ok(Err(e)) => viols.push((
                "C04|lib|valid-list-rejected".into(),
                format!("marginalize({list:?}) of shape {shape:?} rejected: {e}"),
                case_j(shape, &list, labeling),
            )),
            Err(p) => viols.push((
                format!("C04|lib|panic|{}", norm_msg(&p)),
                format!("marginalize({list:?}) of shape {shape:?} panicked: {p}"),
                case_j(shape, &list, labeling),
            )),
        }
        // the value returned is a spectrum like any other: every entry through the indexing operator
        // (which goes through its strides), and equal to one built from the expected values
        evals += 1;
        let through_indices = catch(|| {
            let got = scs.marginalize(&axes).map_err(|e| e.to_string())?;
            let mut k = 0usize;
            let mut bad: Option<String> = None;
            crate::enumerate::for_each_index(&expect.shape, |idx| {
                if bad.is_none() && got.inner().get(idx.to_vec()).copied() != Some(expect.data[k]) {
                    bad = Some(format!("entry {idx:?} is {:?}, expected {}", got.inner().get(idx.to_vec()), expect.data[k]));
                }
                k += 1;
            });
            if bad.is_none() && got != scs_from_ref(&expect) {
                bad = Some("the result does not compare equal to a spectrum built from the expected shape and values".into());
            }
            Ok::<_, String>(bad)
        });
        match through_indices {
            Ok(Ok(None)) => {}
            other => viols.push((
                format!("C04|lib|result-not-a-proper-spectrum|{}", class(&list)),
                format!("marginalize({list:?}) of shape {shape:?}: {other:?}"),
                case_j(shape, &list, labeling),
            )),
        }
        // a single axis: the slices along it, copied out with to_array, add up to the marginal
        if list.len() == 1 {
            evals += 1;
            let a = list[0];
            let slices = catch(|| {
                let mut acc = vec![0.0f64; expect.data.len()];
                for j in 0..shape[a] {
                    let t = scs.inner().index_axis(Axis(a), j).to_array();
                    if t.shape().to_vec() != expect.shape {
                        return Err(format!("slice {j} has shape {:?}", t.shape().to_vec()));
                    }
                    for (s, v) in acc.iter_mut().zip(t.as_slice()) {
                        *s += v;
                    }
                }
                Ok(acc)
            });
            match slices {
                Ok(Ok(acc)) if acc == expect.data => {}
                other => viols.push((
                    format!("C04|lib|slices-do-not-add-up|{}", class(&list)),
                    format!("the slices of shape {shape:?} along axis {a} (index_axis(..).to_array()) add up to {other:?}, the marginal is {:?}", expect.data),
                    case_j(shape, &list, labeling),
                )),
            }
        }
        // one at a time, in the order named (axis numbers shift down as axes disappear)
        evals += 1;
        let one_by_one = catch(|| {
            let mut cur = scs.clone();
            let mut removed: Vec<usize> = Vec::new();
            for &a in &list {
                let shifted = a - removed.iter().filter(|&&r| r < a).count();
                cur = cur.marginalize(&[Axis(shifted)]).map_err(|e| e.to_string())?;
                removed.push(a);
            }
            Ok::<_, String>(ref_from_spectrum(&cur))
        });
        match one_by_one {
            Ok(Ok(got)) if got == expect => {}
            other => viols.push((
                format!("C04|lib|one-at-a-time-wrong|{}", class(&list)),
                format!(
                    "removing axes {list:?} of shape {shape:?} one at a time gives {other:?}, expected {:?}",
                    expect.data
                ),
                case_j(shape, &list, labeling),
            )),
        }
        // mass
        if expect.sum() != x.sum() {
            panic!("reference model does not preserve mass");
        }
    }
    (evals, nontrivial, viols)
}

fn class(list: &[usize]) -> String {
    let sorted = list.windows(2).all(|w| w[0] < w[1]);
    format!(
        "{}axes,{}",
        list.len().min(3),
        if sorted { "sorted" } else { "unsorted" }
    )
}

/// Error clause: every list of length 0..=d+1 over axes 0..=d.
fn check_errors(shape: &[usize]) -> (u64, Vec<Viol>) {
    let d = shape.len();
    let x = bit_labels(shape);
    let scs = scs_from_ref(&x);
    let mut evals = 0;
    let mut viols = Vec::new();
    for list in sequences(d + 1, 0, d + 1) {
        evals += 1;
        let dup = (0..list.len()).any(|i| list[i + 1..].contains(&list[i]));
        let oob = list.iter().any(|&a| a >= d);
        let too_many = list.len() >= d;
        let must_fail = dup || oob || too_many;
        let axes: Vec<Axis> = list.iter().map(|&a| Axis(a)).collect();
        match catch(|| scs.marginalize(&axes).map(|s| ref_from_spectrum(&s))) {
            Ok(Ok(got)) => {
                if must_fail {
                    viols.push((
                        format!(
                            "C04|lib|invalid-list-accepted|dup={dup},oob={oob},all={too_many}"
                        ),
                        format!("marginalize({list:?}) of shape {shape:?} succeeded with {:?}, expected an error", got.shape),
                        case_j(shape, &list, "bits"),
                    ));
                } else if got != x.marginalize(&list) {
                    viols.push((
                        "C04|lib|joint-wrong|errors-sweep".into(),
                        format!("marginalize({list:?}) of shape {shape:?} wrong"),
                        case_j(shape, &list, "bits"),
                    ));
                }
            }
            Ok(Err(e)) => {
                if !must_fail {
                    viols.push((
                        "C04|lib|valid-list-rejected".into(),
                        format!("marginalize({list:?}) of shape {shape:?} rejected: {e}"),
                        case_j(shape, &list, "bits"),
                    ));
                }
            }
            Err(p) => viols.push((
                format!("C04|lib|panic|{}", norm_msg(&p)),
                format!("marginalize({list:?}) of shape {shape:?} panicked: {p}"),
                case_j(shape, &list, "bits"),
            )),
        }
    }
    (evals, viols)
}

#[derive(Clone)]
struct CliCase {
    shape: Vec<usize>,
    flag: &'static str,
    list: Vec<usize>,
    /// further options given in the same invocation: a verbosity flag, `--mask-monomorphic`
    extra: Vec<&'static str>,
}

fn cli_case_j(c: &CliCase, input: &str) -> J {
    J::obj([
        ("kind", J::s("c04-cli")),
        ("shape", J::usizes(&c.shape)),
        ("flag", J::s(c.flag)),
        ("list", J::usizes(&c.list)),
        ("extra", J::strs(&c.extra)),
        ("stdin", J::s(input)),
    ])
}

fn eval_cli(c: &CliCase, scratch: &Scratch) -> (Vec<Viol>, bool) {
    let d = c.shape.len();
    let x = bit_labels(&c.shape);
    let input = text_of(&x);
    let arg = join_usizes(&c.list, ",");
    let mut argv: Vec<&str> = vec!["view"];
    // verbosity flags go in front of the list, the mask flag behind it
    argv.extend(c.extra.iter().filter(|e| e.starts_with("-v") || e.starts_with("-q")));
    argv.extend([c.flag, &arg]);
    argv.extend(c.extra.iter().filter(|e| !(e.starts_with("-v") || e.starts_with("-q"))));
    let o = run_sfs(&argv, Stdin::Bytes(input.as_bytes()), scratch);
    let mut viols = Vec::new();
    let tag = if c.extra.is_empty() { String::new() } else { format!("|with {}", c.extra.join(" ")) };
    // a keep list that names an axis twice: the statement calls duplicate axes an error and defines
    // -M through the complement of the set; either is accepted, anything else is not
    let keep_dup = c.flag == "-M" && (0..c.list.len()).any(|i| c.list[i + 1..].contains(&c.list[i]));
    let remove: Vec<usize> = if c.flag == "-m" {
        c.list.clone()
    } else {
        (0..d).filter(|a| !c.list.contains(a)).collect()
    };
    let dup = (0..remove.len()).any(|i| remove[i + 1..].contains(&remove[i]));
    let oob = remove.iter().any(|&a| a >= d);
    let too_many = remove.len() >= d;
    // -M with out-of-range or duplicate entries is not covered by the statement; those lists are
    // not generated. -M keeping every axis removes nothing and must reproduce the input.
    let must_fail = dup || oob || too_many;
    if must_fail {
        if o.ok() || !o.stdout.is_empty() || !o.diagnosed_error() {
            viols.push((
                format!("C04|cli|invalid-list-not-rejected|dup={dup},oob={oob},all={too_many}"),
                format!(
                    "view {} {arg} on shape {:?}: {} stdout={:?} stderr={:?}",
                    c.flag,
                    c.shape,
                    o.status_str(),
                    o.stdout_str(),
                    o.stderr_str()
                ),
                cli_case_j(c, &input),
            ));
        }
        return (viols, false);
    }
    if keep_dup && !o.ok() && o.stdout.is_empty() && o.diagnosed_error() {
        return (viols, false);
    }
    let mut expect = if remove.is_empty() { x.clone() } else { x.marginalize(&remove) };
    if c.extra.contains(&"--mask-monomorphic") {
        let n = expect.data.len();
        expect.data[0] = 0.0;
        expect.data[n - 1] = 0.0;
    }
    match parse_out(&o) {
        Ok(got) if got == expect => {}
        other => viols.push((
            format!("C04|cli|{}-wrong|{}{tag}", c.flag, class(&remove)),
            format!(
                "{argv:?} on shape {:?} gave {other:?}, expected {:?} {:?}",
                c.shape, expect.shape, expect.data
            ),
            cli_case_j(c, &input),
        )),
    }
    (viols, remove.len() >= 2)
}

/// Marginalization through the binary on values that are not whole numbers, read back from npy
/// output (every bit of the sums): tiny fractions and near-integers must come through untouched.
fn eval_cli_values(shape: &[usize], list: &[usize], family: &str, scratch: &Scratch) -> Option<Viol> {
    let x = match family {
        "fractions" => RefArray::from_fn(shape, |f, _| (f as f64 + 1.0) / 1024.0 / 1048576.0),
        "near-integers" => RefArray::from_fn(shape, |f, _| (f % 4) as f64 + if f % 3 == 0 { 2.0f64.powi(-31) } else { -(2.0f64.powi(-33)) }),
        _ => RefArray::from_fn(shape, |f, _| ((f % 7) as f64 + 1.0) / 32.0 / (1u64 << 32) as f64),
    };
    let input = text_of(&x);
    let arg = join_usizes(list, ",");
    let expect = x.marginalize(list);
    let o = run_sfs(&["view", "-m", &arg, "-O", "npy"], Stdin::Bytes(input.as_bytes()), scratch);
    let got: Result<RefArray, String> = if !o.ok() {
        Err(format!("{} {}", o.status_str(), o.stderr_str().trim()))
    } else {
        crate::npyref::strict_parse_header(&o.stdout).map(|p| RefArray { shape: p.shape.clone(), data: o.stdout[p.data_offset..].chunks_exact(8).map(|c| f64::from_le_bytes(c.try_into().unwrap())).collect() })
    };
    // the same at 17 decimals of text
    let t = run_sfs(&["view", "-m", &arg, "--precision", "17"], Stdin::Bytes(input.as_bytes()), scratch);
    let got_text = parse_out(&t);
    let ok_npy = matches!(&got, Ok(g) if *g == expect);
    let ok_text = matches!(&got_text, Ok(g) if g.shape == expect.shape && g.data.iter().zip(&expect.data).all(|(a, b)| (a - b).abs() <= 0.6e-17 + 1e-15 * b.abs()));
    if ok_npy && ok_text {
        return None;
    }
    Some((
        format!("C04|cli|-m-wrong|{family}"),
        format!("view -m {arg} on shape {shape:?} with {family} values: npy {:?}, text at 17 decimals {:?}, expected {:?}", got.map(|g| g.data), got_text.map(|g| g.data), expect.data),
        J::obj([("kind", J::s("c04-cli-values")), ("shape", J::usizes(shape)), ("list", J::usizes(list)), ("family", J::s(family))]),
    ))
}

pub fn run(tier: Tier) -> i32 {
    let mut rep = Report::new("C04", tier, "exploration");
    rep.rule = "L1: every shape in the bound x every ordered list of distinct axes of size 1..d-1, on label spectra whose sums identify their summands (bit labels 2^i for <=52 cells; thorough adds three integer labelings summed exactly); joint and one-at-a-time removal compared bit-exactly with the reference; error clause on every list of length 0..d+1 over axes 0..d. L2: `sfs view -m/-M` on a shape grid. Non-trivial = >=2 removed axes or unequal axis lengths.".into();

    // L1 bit labels: all shapes with <= 52 cells, <= 5 axes, lengths 1..6
    let shp = shapes(5, 1, 6, 52);
    let res = par_each(&shp, |s| check_shape(s, "bits"));
    let (mut ev, mut nt) = (0, 0);
    for (e, n, v) in res {
        ev += e;
        nt += n;
        for (k, w, j) in v {
            rep.violation(k, w, j);
        }
    }
    rep.part(Part {
        name: "lib: bit-label spectra".into(),
        evaluations: ev,
        nontrivial: nt,
        note: format!("{} shapes (<=5 axes, lengths 1..6, <=52 cells), all ordered axis lists", shp.len()),
        exhaustive: true,
        extra: vec![],
    });
    rep.sample(J::obj([
        ("shape", J::usizes(&[2, 3, 2])),
        ("labeling", J::s("bits: x[i]=2^i")),
        ("axes", J::usizes(&[2, 0])),
        ("expected", J::f64s(&bit_labels(&[2, 3, 2]).marginalize(&[2, 0]).data)),
    ]));

    if tier.thorough() {
        let shp = shapes(5, 1, 5, usize::MAX);
        for lab in ["lin", "sq", "hash"] {
            let res = par_each(&shp, |s| check_shape(s, lab));
            let (mut ev, mut nt) = (0, 0);
            for (e, n, v) in res {
                ev += e;
                nt += n;
                for (k, w, j) in v {
                    rep.violation(k, w, j);
                }
            }
            rep.part(Part {
                name: format!("lib: integer labeling '{lab}'"),
                evaluations: ev,
                nontrivial: nt,
                note: format!("{} shapes (<=5 axes, lengths 1..5)", shp.len()),
                exhaustive: true,
                extra: vec![],
            });
        }
    }

    // scale: many axes and long axes; removal of each single axis, of (first, last), of (last, first) and of all but one axis
    {
        let sc: Vec<Vec<usize>> = crate::enumerate::scale_shapes(tier.pick(9, 11)).into_iter().filter(|s| s.len() >= 2).collect();
        let res = par_each(&sc, |s| {
            let d = s.len();
            let x = RefArray::from_fn(s, |f, _| ((f * 5) % 977 + 1) as f64);
            let scs = scs_from_ref(&x);
            let mut lists: Vec<Vec<usize>> = (0..d).map(|a| vec![a]).collect();
            lists.push(vec![0, d - 1]);
            lists.push(vec![d - 1, 0]);
            if d >= 3 {
                lists.push((1..d).collect());
                lists.push((0..d - 1).rev().collect());
                lists.push(vec![d / 2, 0, d - 1]);
            }
            let mut viols: Vec<Viol> = Vec::new();
            for list in &lists {
                if list.len() >= d {
                    continue;
                }
                let expect = x.marginalize(list);
                let axes: Vec<Axis> = list.iter().map(|&a| Axis(a)).collect();
                match catch(|| scs.marginalize(&axes).map(|r| ref_from_spectrum(&r)).map_err(|e| e.to_string())) {
                    Ok(Ok(g)) if g == expect => {}
                    other => {
                        if viols.len() < 2 {
                            viols.push((format!("C04|lib|joint-wrong|scale,{}axes", d.min(6)), format!("marginalize({list:?}) of shape {s:?}: {:?}, expected shape {:?}", other.map(|r| r.map(|g| g.shape)), expect.shape), case_j(s, list, "scale977")));
                        }
                    }
                }
            }
            (lists.len() as u64, viols)
        });
        let mut ev = 0;
        for (e, v) in res {
            ev += e;
            for (k, w, j) in v {
                rep.violation(k, w, j);
            }
        }
        rep.part(Part {
            name: "lib: scale (many axes, long axes)".into(),
            evaluations: ev,
            nontrivial: ev,
            note: format!("{} shapes with 6..{} axes of lengths {{1,2}}, 3^7, (2,3)^4 and axes of 255..4 097 entries: every single axis, (first,last) in both orders, all-but-first, all-but-last reversed, and a three-axis list", sc.len(), tier.pick(9, 11)),
            exhaustive: true,
            extra: vec![],
        });
    }

    // large non-integer values: totals beyond 2^33, where one ulp of the total exceeds 1e-6
    {
        let mut n = 0u64;
        for sh in [vec![3usize, 5], vec![2, 3, 4], vec![4, 1, 3, 2]] {
            for scale in [1e6, 1e12, 1e18, 1e150] {
                let x = RefArray::from_fn(&sh, |f, _| scale * (f + 1) as f64 / 7.0 + 0.1 * f as f64);
                let scs = scs_from_ref(&x);
                for list in ordered_lists(sh.len(), 1, sh.len() - 1) {
                    n += 1;
                    let expect = x.marginalize(&list);
                    let axes: Vec<Axis> = list.iter().map(|&a| Axis(a)).collect();
                    match catch(|| scs.marginalize(&axes).map(|r| ref_from_spectrum(&r)).map_err(|e| e.to_string())) {
                        Ok(Ok(g)) if g.shape == expect.shape && g.data.iter().zip(&expect.data).all(|(a, b)| (a - b).abs() <= 1e-12 * b.abs()) => {}
                        other => rep.violation(
                            format!("C04|lib|large-values-wrong|{}", if matches!(other, Err(_)) { "panic" } else { "value" }),
                            format!("marginalize({list:?}) of shape {sh:?} with entries of magnitude {scale:e}: {:?}", other.map(|r| r.map(|g| g.data.iter().take(4).cloned().collect::<Vec<_>>()))),
                            case_j(&sh, &list, &format!("huge:{scale:e}")),
                        ),
                    }
                }
            }
        }
        rep.part(Part {
            name: "lib: large non-integer values".into(),
            evaluations: n,
            nontrivial: n,
            note: "3 shapes x entries scale*(i+1)/7 + 0.1 i for scale in {1e6, 1e12, 1e18, 1e150} x every ordered axis list: finite, within 1e-12 relative of the reference".into(),
            exhaustive: true,
            extra: vec![],
        });
    }

    // values that are not counts: infinite and NaN entries, entries that cancel to a total of zero, an
    // all-zero spectrum, tiny fractions and near-integers (sums are plain sums: no rescaling by the
    // total, no compensation term that an infinity poisons, no snapping to whole numbers)
    {
        let mut n = 0u64;
        let families: Vec<(&str, Box<dyn Fn(usize) -> f64 + Sync>)> = vec![
            ("one-infinity", Box::new(|f| if f == 1 { f64::INFINITY } else { (f % 5) as f64 + 1.0 })),
            ("infinities", Box::new(|f| if f % 4 == 1 { f64::INFINITY } else { (f % 5) as f64 })),
            ("opposite-infinities", Box::new(|f| if f == 0 { f64::INFINITY } else if f == 7 { f64::NEG_INFINITY } else { 2.0 })),
            ("one-nan", Box::new(|f| if f == 2 { f64::NAN } else { (f % 3) as f64 })),
            ("cancelling", Box::new(|f| if f % 2 == 0 { (f / 2 + 1) as f64 } else { -((f / 2 + 1) as f64) })),
            ("all-zero", Box::new(|_| 0.0)),
            ("fractions", Box::new(|f| (f as f64 + 1.0) / 1024.0 / 1048576.0)),
            ("near-integers", Box::new(|f| (f % 4) as f64 + if f % 3 == 0 { 2.0f64.powi(-31) } else { -2.0f64.powi(-33) })),
            ("overflowing", Box::new(|f| if f % 2 == 0 { 1.5e308 } else { 1e308 })),
        ];
        for sh in [vec![3usize, 4], vec![4, 2], vec![3, 4, 2], vec![2, 2, 3, 2]] {
            for (name, gen) in &families {
                let x = RefArray::from_fn(&sh, |f, _| gen(f));
                let scs = scs_from_ref(&x);
                for list in ordered_lists(sh.len(), 1, sh.len() - 1) {
                    n += 1;
                    let expect = x.marginalize(&list);
                    let axes: Vec<Axis> = list.iter().map(|&a| Axis(a)).collect();
                    // sums of a few exactly representable terms are exact whatever the order; with an
                    // infinity or NaN among the terms the result is that infinity / NaN in any order
                    let same = |g: &RefArray| g.shape == expect.shape && g.data.iter().zip(&expect.data).all(|(a, b)| (a.is_nan() && b.is_nan()) || a == b);
                    match catch(|| scs.marginalize(&axes).map(|r| ref_from_spectrum(&r)).map_err(|e| e.to_string())) {
                        Ok(Ok(g)) if same(&g) => {}
                        other => rep.violation(
                            format!("C04|lib|unusual-values-wrong|{name}"),
                            format!("marginalize({list:?}) of shape {sh:?} with {name} entries {:?}: {:?}, expected {:?}", x.data, other.map(|r| r.map(|g| g.data)), expect.data),
                            case_j(&sh, &list, &format!("unusual:{name}")),
                        ),
                    }
                }
            }
        }
        rep.part(Part {
            name: "lib: infinite, NaN, cancelling, zero, tiny and near-integer values".into(),
            evaluations: n,
            nontrivial: n,
            note: "4 shapes x 9 value families x every ordered axis list: the marginal is the plain sum (an infinity stays an infinity, opposite infinities and NaN give NaN, a zero total gives zeros, 2^-31 next to an integer survives, a sum beyond the largest finite number is an infinity)".into(),
            exhaustive: true,
            extra: vec![],
        });
    }

    // call histories of length 2: marginalize(A, axes a) directly followed by marginalize(B, axes b) on one thread
    {
        let mut calls: Vec<(Vec<usize>, Vec<usize>)> = Vec::new();
        for sh in shapes(4, 1, 3, 36) {
            let d = sh.len();
            if d < 2 {
                continue;
            }
            for a in 0..d {
                calls.push((sh.clone(), vec![a]));
            }
            if d >= 3 {
                calls.push((sh.clone(), vec![d - 1, 0]));
            }
        }
        let res = par_map(calls.len(), |i| {
            let (a_shape, a_axes) = &calls[i];
            let a = scs_from_ref(&labeled(a_shape, "lin"));
            let a_ax: Vec<Axis> = a_axes.iter().map(|&x| Axis(x)).collect();
            let mut viols: Vec<Viol> = Vec::new();
            for (b_shape, b_axes) in &calls {
                let bx = labeled(b_shape, "sq");
                let b = scs_from_ref(&bx);
                let b_ax: Vec<Axis> = b_axes.iter().map(|&x| Axis(x)).collect();
                let expect = bx.marginalize(b_axes);
                let got = catch(|| {
                    let _ = a.marginalize(&a_ax);
                    b.marginalize(&b_ax).map(|s| ref_from_spectrum(&s)).map_err(|e| e.to_string())
                });
                match got {
                    Ok(Ok(g)) if g == expect => {}
                    other => {
                        if viols.len() < 2 {
                            viols.push((
                                "C04|lib|marginalize-depends-on-previous-call".into(),
                                format!("marginalize({b_axes:?}) of shape {b_shape:?} directly after marginalize({a_axes:?}) of shape {a_shape:?} on the same thread gives {other:?}, expected {:?}", expect.data),
                                case_j(b_shape, b_axes, "sq"),
                            ));
                        }
                    }
                }
            }
            viols
        });
        for v in res.into_iter().flatten() {
            rep.violation(v.0, v.1, v.2);
        }
        let n = (calls.len() * calls.len()) as u64;
        rep.part(Part {
            name: "lib: marginalize after marginalize (call histories of length 2)".into(),
            evaluations: n,
            nontrivial: n,
            note: format!("every ordered pair of {} (shape, axes) calls on shapes with <=4 axes, lengths <=3, <=36 cells, run back to back on one thread", calls.len()),
            exhaustive: true,
            extra: vec![],
        });
    }

    // error clause
    let err_shapes: Vec<Vec<usize>> = (1..=5).map(|d| [2usize, 3, 2, 1, 2][..d].to_vec()).collect();
    let res = par_each(&err_shapes, |s| check_errors(s));
    let mut ev = 0;
    for (e, v) in res {
        ev += e;
        for (k, w, j) in v {
            rep.violation(k, w, j);
        }
    }
    rep.part(Part {
        name: "lib: error clause".into(),
        evaluations: ev,
        nontrivial: ev,
        note: "every list of length 0..d+1 over axes 0..d (duplicates, out-of-range, all axes), d=1..5".into(),
        exhaustive: true,
        extra: vec![],
    });

    // the array-level sum down to a single total: the last step leaves an array without axes holding
    // one value (the spectrum-level call refuses to remove every axis, the array-level one does not)
    {
        let mut n = 0u64;
        for sh in [vec![1usize], vec![2], vec![5], vec![8], vec![2, 3], vec![3, 2], vec![2, 2, 3]] {
            n += 1;
            let x = bit_labels(&sh);
            let total: f64 = x.data.iter().sum();
            let got = catch(|| {
                let mut a = scs_from_ref(&x).inner().clone();
                while a.dimensions() > 0 {
                    a = a.sum(Axis(a.dimensions() - 1));
                }
                (a.shape().to_vec(), a.as_slice().to_vec(), a.elements())
            });
            if !matches!(&got, Ok((s, v, e)) if s.is_empty() && v == &vec![total] && *e == 1) {
                rep.violation(
                    format!("C04|lib|sum-down-to-total|{}axes", sh.len()),
                    format!("summing shape {sh:?} axis by axis down to no axes gives {got:?}, expected an array without axes holding [{total}]"),
                    J::obj([("kind", J::s("c04-total")), ("shape", J::usizes(&sh))]),
                );
            }
        }
        rep.part(Part {
            name: "lib: array sums down to the total".into(),
            evaluations: n,
            nontrivial: n,
            note: "seven shapes with 1..3 axes summed axis by axis (last axis first) until no axis is left: one value, the total".into(),
            exhaustive: true,
            extra: vec![],
        });
    }
    // L2
    let scratch = Scratch::new("c04");
    let cli_shapes: Vec<Vec<usize>> = if tier.thorough() {
        vec![
            vec![3], vec![2, 3], vec![3, 2, 4], vec![2, 3, 2, 2], vec![2, 1, 3], vec![4, 4],
            vec![2, 2, 3, 1, 2], vec![3, 3, 3], vec![5, 2, 2, 2],
        ]
    } else {
        vec![vec![3], vec![2, 3], vec![3, 2, 4], vec![2, 3, 2, 2], vec![2, 1, 3], vec![2, 2, 3, 1, 2]]
    };
    let mut cases: Vec<CliCase> = Vec::new();
    // more than 8 axes: -M naming high axes, -m naming many
    for s in [vec![2usize, 1, 2, 1, 2, 1, 2, 1, 3], vec![1, 2, 1, 2, 1, 1, 1, 2, 1, 2, 2]] {
        let d = s.len();
        for k in [vec![0, d - 1], vec![d - 1, 0], vec![d - 1], vec![d - 2, d - 1], vec![0], (0..d).step_by(2).collect::<Vec<_>>()] {
            cases.push(CliCase { shape: s.clone(), flag: "-M", list: k, extra: vec![] });
        }
        cases.push(CliCase { shape: s.clone(), flag: "-m", list: (1..d - 1).collect(), extra: vec![] });
        cases.push(CliCase { shape: s.clone(), flag: "-m", list: vec![d - 1, 0, d / 2], extra: vec![] });
    }
    for s in &cli_shapes {
        let d = s.len();
        // -m: all ordered lists of distinct axes (valid), plus invalid ones
        for l in ordered_lists(d, 1, d) {
            cases.push(CliCase { shape: s.clone(), flag: "-m", list: l, extra: vec![] });
        }
        cases.push(CliCase { shape: s.clone(), flag: "-m", list: vec![0, 0], extra: vec![] });
        cases.push(CliCase { shape: s.clone(), flag: "-m", list: vec![d], extra: vec![] });
        if d >= 2 {
            cases.push(CliCase { shape: s.clone(), flag: "-m", list: vec![1, 0, 1], extra: vec![] });
            cases.push(CliCase { shape: s.clone(), flag: "-m", list: vec![0, d + 3], extra: vec![] });
        }
        // -M: every non-empty subset K (keep) in sorted and reversed order
        for k in subsets(d) {
            if k.is_empty() {
                continue;
            }
            let mut r = k.clone();
            r.reverse();
            if r != k {
                cases.push(CliCase { shape: s.clone(), flag: "-M", list: r, extra: vec![] });
            }
            cases.push(CliCase { shape: s.clone(), flag: "-M", list: k, extra: vec![] });
        }
    }
    // the same lists together with a second option: what is logged and what is masked afterwards
    // must not change what is summed; keep lists naming an axis twice
    let base: Vec<CliCase> = cases.iter().filter(|c| c.shape.len() <= 5).cloned().collect();
    for c in &base {
        for extra in [vec!["-v"], vec!["-vv"], vec!["-q"], vec!["--mask-monomorphic"], vec!["-v", "--mask-monomorphic"]] {
            let mut c2 = c.clone();
            c2.extra = extra;
            cases.push(c2);
        }
        if c.flag == "-M" && !c.list.is_empty() {
            for at in [0, c.list.len() - 1] {
                let mut l = c.list.clone();
                l.push(c.list[at]);
                cases.push(CliCase { shape: c.shape.clone(), flag: "-M", list: l.clone(), extra: vec![] });
                l.rotate_right(1);
                cases.push(CliCase { shape: c.shape.clone(), flag: "-M", list: l, extra: vec!["-v"] });
            }
        }
    }
    {
        let sp: Vec<(Vec<String>, Vec<u8>)> = cases
            .iter()
            .filter(|c| c.shape.len() <= 4 && c.shape.len() >= 2)
            .map(|c| {
                let mut a: Vec<String> = vec!["view".into()];
                a.extend(c.extra.iter().filter(|e| e.starts_with("-v") || e.starts_with("-q")).map(|e| e.to_string()));
                a.extend([c.flag.to_string(), join_usizes(&c.list, ",")]);
                a.extend(c.extra.iter().filter(|e| !(e.starts_with("-v") || e.starts_with("-q"))).map(|e| e.to_string()));
                (a, text_of(&bit_labels(&c.shape)).into_bytes())
            })
            .collect();
        super::spelling_part(&mut rep, "C04", "every -m / -M list of the shapes with 2..4 axes, valid and invalid", &sp, &scratch);
    }
    let res = par_map(cases.len(), |i| eval_cli(&cases[i], &scratch));
    let mut nt = 0;
    for (v, n) in res {
        if n {
            nt += 1;
        }
        for (k, w, j) in v {
            rep.violation(k, w, j);
        }
    }
    rep.part(Part {
        name: "cli: view -m / -M".into(),
        evaluations: cases.len() as u64,
        nontrivial: nt,
        note: format!("{} shapes; -m every ordered list incl. invalid ones; -M every subset (checked against the complement); each list also with -v / -vv / -q / --mask-monomorphic / both in the same invocation; keep lists naming an axis twice (an error or the complement of the set)", cli_shapes.len()),
        exhaustive: true,
        extra: vec![],
    });
    rep.sample(J::obj([
        ("argv", J::strs(&["view", "-M", "2,0"])),
        ("stdin", J::s(text_of(&bit_labels(&[3, 2, 4])))),
        ("expected", J::s(text_of(&bit_labels(&[3, 2, 4]).marginalize(&[1])))),
    ]));

    // fractional values through the binary
    {
        let mut vj: Vec<(Vec<usize>, Vec<usize>, &str)> = Vec::new();
        for sh in [vec![3usize, 4], vec![2, 3, 2]] {
            for list in ordered_lists(sh.len(), 1, sh.len() - 1) {
                for family in ["fractions", "near-integers", "small"] {
                    vj.push((sh.clone(), list.clone(), family));
                }
            }
        }
        let res = par_map(vj.len(), |i| eval_cli_values(&vj[i].0, &vj[i].1, vj[i].2, &scratch));
        for v in res.into_iter().flatten() {
            rep.violation(v.0, v.1, v.2);
        }
        rep.part(Part {
            name: "cli: view -m on fractional values".into(),
            evaluations: 2 * vj.len() as u64,
            nontrivial: 2 * vj.len() as u64,
            note: "shapes 3x4 and 2x3x2 x every ordered axis list x {multiples of 2^-30, integers +- 2^-31 / 2^-33, small dyadic fractions}: the npy output holds the exact sums to the bit, the text output at 17 decimals agrees".into(),
            exhaustive: true,
            extra: vec![],
        });
    }
    super::c04_create::run_create_relation(&mut rep, tier, &scratch);

    rep.assumptions = vec![
        "reference RefArray::marginalize (explicit loops over multi-indices)".into(),
        "'all value vectors' is covered by linearity: label spectra make every output cell name its summands".into(),
    ];
    rep.finish()
}

pub fn replay(case: &J) -> Option<Vec<String>> {
    match case.get("kind")?.as_str()? {
        "c04-lib" => {
            let shape = case.get("shape")?.as_usizes()?;
            let lab = case.get("labeling")?.as_str()?.to_string();
            let cells: usize = shape.iter().product();
            if cells <= 52 && shape.len() <= 5 && ["bits", "lin", "sq", "hash"].contains(&lab.as_str()) && !(lab == "sq" && case.get("history").is_some()) {
                let (_, _, v) = check_shape(&shape, &lab);
                let (_, v2) = check_errors(&shape);
                return Some(v.into_iter().chain(v2).map(|(k, w, _)| format!("{k} :: {w}")).collect());
            }
            if lab.starts_with("unusual:") {
                // (the value families live in closures of the run; no stand-alone replay)
                return None;
            }
            // beyond the small grid: exactly the recorded axis list on the recorded filling
            let axes = case.get("axes")?.as_usizes()?;
            let x = if lab == "scale977" {
                RefArray::from_fn(&shape, |f, _| ((f * 5) % 977 + 1) as f64)
            } else if let Some(sc) = lab.strip_prefix("huge:") {
                let scale: f64 = sc.parse().ok()?;
                RefArray::from_fn(&shape, |f, _| scale * (f + 1) as f64 / 7.0 + 0.1 * f as f64)
            } else {
                labeled(&shape, &lab)
            };
            let expect = x.marginalize(&axes);
            let ax: Vec<Axis> = axes.iter().map(|&a| Axis(a)).collect();
            let got = catch(|| scs_from_ref(&x).marginalize(&ax).map(|r| ref_from_spectrum(&r)).map_err(|e| e.to_string()));
            Some(match got {
                Ok(Ok(g)) if g.shape == expect.shape && g.data.iter().zip(&expect.data).all(|(a, b)| (a - b).abs() <= 1e-12 * b.abs()) => vec![],
                other => vec![format!("C04|lib|joint-wrong :: marginalize({axes:?}) of shape {shape:?} ({lab}): {:?}", other.map(|r| r.map(|g| g.shape)))],
            })
        }
        "c04-cli-values" => {
            let scratch = Scratch::new("c04r");
            let fam: &'static str = ["fractions", "near-integers", "small"].iter().copied().find(|f| Some(*f) == case.get("family").and_then(|x| x.as_str())).unwrap_or("small");
            Some(eval_cli_values(&case.get("shape")?.as_usizes()?, &case.get("list")?.as_usizes()?, fam, &scratch).into_iter().map(|(k, w, _)| format!("{k} :: {w}")).collect())
        }
        "c04-cli" => {
            let scratch = Scratch::new("c04r");
            let flag = if case.get("flag")?.as_str()? == "-m" { "-m" } else { "-M" };
            let c = CliCase {
                shape: case.get("shape")?.as_usizes()?,
                flag,
                list: case.get("list")?.as_usizes()?,
                extra: case.get("extra").and_then(|e| e.as_arr()).map_or(vec![], |a| {
                    a.iter().filter_map(|x| x.as_str()).filter_map(|x| ["-v", "-vv", "-q", "--mask-monomorphic"].iter().copied().find(|k| *k == x)).collect()
                }),
            };
            let (v, _) = eval_cli(&c, &scratch);
            Some(v.into_iter().map(|(k, w, _)| format!("{k} :: {w}")).collect())
        }
        _ => None,
    }
}
