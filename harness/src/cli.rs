//! Driver for the real `sfs` binary built from /repo's working tree (layer L2).

use std::{
    fs,
    io::Write,
    os::unix::process::{CommandExt, ExitStatusExt},
    path::{Path, PathBuf},
    process::{Command, Stdio},
    sync::atomic::{AtomicU64, Ordering},
};

use crate::json::{bytes_j, J};

pub const SFS_BIN: &str = "/verif/target/cli/release/sfs";

#[derive(Clone, Debug)]
pub struct Out {
    pub code: Option<i32>,
    pub signal: Option<i32>,
    pub stdout: Vec<u8>,
    pub stderr: Vec<u8>,
}

impl Out {
    pub fn ok(&self) -> bool {
        self.code == Some(0)
    }
    pub fn stdout_str(&self) -> String {
        String::from_utf8_lossy(&self.stdout).into_owned()
    }
    pub fn stderr_str(&self) -> String {
        String::from_utf8_lossy(&self.stderr).into_owned()
    }
    pub fn panicked(&self) -> bool {
        self.code == Some(101) || self.stderr_str().contains("panicked at")
    }
    pub fn timed_out(&self) -> bool {
        self.signal == Some(libc::SIGALRM) || self.signal == Some(libc::SIGXCPU)
    }
    /// Memory-limit abort under the harness's own RLIMIT_AS: inconclusive, never a verdict.
    pub fn oom(&self) -> bool {
        self.signal == Some(libc::SIGABRT) && self.stderr_str().contains("memory allocation of")
    }
    /// Diagnosed error: non-zero exit status (not 101, not a signal) with non-empty stderr.
    pub fn diagnosed_error(&self) -> bool {
        matches!(self.code, Some(c) if c != 0 && c != 101)
            && !self.stderr.is_empty()
            && !self.panicked()
    }
    pub fn status_str(&self) -> String {
        match (self.code, self.signal) {
            (Some(c), _) => format!("exit {c}"),
            (None, Some(s)) => format!("signal {s}"),
            _ => "unknown".into(),
        }
    }
    pub fn to_j(&self) -> J {
        J::obj([
            ("status", J::s(self.status_str())),
            ("stdout", bytes_j(&self.stdout[..self.stdout.len().min(2000)])),
            ("stderr", bytes_j(&self.stderr[..self.stderr.len().min(2000)])),
        ])
    }
    /// First line of the panic message with its source file, for failure keys.
    pub fn panic_site(&self) -> String {
        let s = self.stderr_str();
        // thread 'main' panicked at core/src/x.rs:12:5:\nmessage
        if let Some(i) = s.find("panicked at ") {
            let rest = &s[i + 12..];
            let mut lines = rest.lines();
            let loc = lines.next().unwrap_or("");
            let file = loc.split(':').next().unwrap_or("");
            let msg = lines.next().unwrap_or("");
            return format!(
                "{} \"{}\"",
                crate::verdict::short_path(file),
                crate::verdict::norm_msg(msg)
            );
        }
        format!("no panic message ({})", self.status_str())
    }
}

pub enum Stdin<'a> {
    Null,
    /// Bytes delivered through a regular file opened as fd 0 (deterministic read sizes).
    Bytes(&'a [u8]),
    /// An existing file.
    File(&'a Path),
}

/// Per-process scratch directory under /verif/target/scratch, removed at exit.
pub struct Scratch {
    pub dir: PathBuf,
    counter: AtomicU64,
}

impl Scratch {
    pub fn new(tag: &str) -> Scratch {
        let dir = PathBuf::from(format!(
            "/verif/target/scratch/{}-{}",
            tag,
            std::process::id()
        ));
        let _ = fs::remove_dir_all(&dir);
        fs::create_dir_all(&dir).expect("cannot create scratch dir");
        Scratch {
            dir,
            counter: AtomicU64::new(0),
        }
    }
    /// A fresh unique path with the given suffix.
    pub fn path(&self, suffix: &str) -> PathBuf {
        let n = self.counter.fetch_add(1, Ordering::Relaxed);
        self.dir.join(format!("f{n}{suffix}"))
    }
    pub fn file(&self, suffix: &str, bytes: &[u8]) -> PathBuf {
        let p = self.path(suffix);
        let mut f = fs::File::create(&p).expect("scratch create");
        f.write_all(bytes).expect("scratch write");
        p
    }
}

impl Drop for Scratch {
    fn drop(&mut self) {
        let _ = fs::remove_dir_all(&self.dir);
    }
}

pub struct Limits {
    pub wall_s: u32,
    pub mem_bytes: u64,
}

impl Default for Limits {
    fn default() -> Self {
        Limits {
            wall_s: 60,
            mem_bytes: 4 << 30,
        }
    }
}

pub fn run_sfs(args: &[&str], stdin: Stdin, scratch: &Scratch) -> Out {
    run_sfs_env(args, stdin, scratch, &[], &Limits::default())
}

pub fn run_sfs_env(
    args: &[&str],
    stdin: Stdin,
    scratch: &Scratch,
    env: &[(&str, &str)],
    limits: &Limits,
) -> Out {
    let mut cmd = Command::new(SFS_BIN);
    cmd.args(args)
        .env_clear()
        .env("SFS_ALLOW_STDIN", "1")
        .env("RUST_BACKTRACE", "0")
        .current_dir(&scratch.dir)
        .stdout(Stdio::piped())
        .stderr(Stdio::piped());
    for (k, v) in env {
        cmd.env(k, v);
    }
    let mut tmp: Option<PathBuf> = None;
    match stdin {
        Stdin::Null => {
            cmd.stdin(Stdio::null());
        }
        Stdin::Bytes(b) => {
            let p = scratch.file(".stdin", b);
            cmd.stdin(fs::File::open(&p).expect("open stdin file"));
            tmp = Some(p);
        }
        Stdin::File(p) => {
            cmd.stdin(fs::File::open(p).expect("open stdin file"));
        }
    }
    let wall = limits.wall_s;
    let mem = limits.mem_bytes;
    // SAFETY: only async-signal-safe libc calls between fork and exec.
    unsafe {
        cmd.pre_exec(move || {
            let lim = libc::rlimit {
                rlim_cur: mem,
                rlim_max: mem,
            };
            libc::setrlimit(libc::RLIMIT_AS, &lim);
            let core = libc::rlimit {
                rlim_cur: 0,
                rlim_max: 0,
            };
            libc::setrlimit(libc::RLIMIT_CORE, &core);
            // wall-clock cap: the alarm survives exec; SIGALRM's default action terminates
            libc::alarm(wall);
            Ok(())
        });
    }
    let out = match cmd.output() {
        Ok(o) => o,
        Err(e) => {
            eprintln!("ENGINE: cannot run {SFS_BIN}: {e}");
            std::process::exit(2);
        }
    };
    if let Some(p) = tmp {
        let _ = fs::remove_file(p);
    }
    Out {
        code: out.status.code(),
        signal: out.status.signal(),
        stdout: out.stdout,
        stderr: out.stderr,
    }
}

/// Runs a shell-free pipeline `sfs a... | sfs b... | ...`, feeding each stage's stdout to the next
/// stage's stdin through a scratch file; returns all stage outputs.
pub fn run_chain(stages: &[Vec<String>], first_stdin: &[u8], scratch: &Scratch) -> Vec<Out> {
    let mut outs: Vec<Out> = Vec::new();
    let mut input: Vec<u8> = first_stdin.to_vec();
    for st in stages {
        let args: Vec<&str> = st.iter().map(|s| s.as_str()).collect();
        let o = run_sfs(&args, Stdin::Bytes(&input), scratch);
        input = o.stdout.clone();
        let failed = !o.ok();
        outs.push(o);
        if failed {
            break;
        }
    }
    outs
}

pub fn argv_j(args: &[&str]) -> J {
    J::strs(args)
}

/// Parses the text spectrum format `#SHAPE=<a/b>\nv v v\n` strictly; returns (shape, tokens).
pub fn parse_text_spectrum(s: &str) -> Result<(Vec<usize>, Vec<String>), String> {
    let mut lines = s.split('\n');
    let head = lines.next().ok_or("no header")?;
    let inner = head
        .strip_prefix("#SHAPE=<")
        .and_then(|x| x.strip_suffix('>'))
        .ok_or_else(|| format!("bad header '{head}'"))?;
    let shape: Vec<usize> = inner
        .split('/')
        .map(|t| t.parse::<usize>().map_err(|e| format!("bad shape: {e}")))
        .collect::<Result<_, _>>()?;
    let body = lines.next().ok_or("no value line")?;
    let rest: Vec<&str> = lines.collect();
    if rest != [""] {
        return Err(format!("unexpected trailing lines {rest:?}"));
    }
    let toks: Vec<String> = if body.is_empty() {
        Vec::new()
    } else {
        body.split(' ').map(|s| s.to_string()).collect()
    };
    Ok((shape, toks))
}

pub fn parse_f64_tokens(toks: &[String]) -> Result<Vec<f64>, String> {
    toks.iter()
        .map(|t| t.parse::<f64>().map_err(|e| format!("bad value '{t}': {e}")))
        .collect()
}

/// Runs `sfs` with stdin connected to a real pipe; `chunks` are written one `write` call each,
/// with `delay_ms` between them (arrival timing is then OS-dependent: confirmation only).
pub fn run_sfs_piped(args: &[&str], chunks: &[&[u8]], delay_ms: u64, scratch: &Scratch) -> Out {
    let mut cmd = Command::new(SFS_BIN);
    cmd.args(args)
        .env_clear()
        .env("SFS_ALLOW_STDIN", "1")
        .env("RUST_BACKTRACE", "0")
        .current_dir(&scratch.dir)
        .stdin(Stdio::piped())
        .stdout(Stdio::piped())
        .stderr(Stdio::piped());
    // SAFETY: only async-signal-safe libc calls between fork and exec.
    unsafe {
        cmd.pre_exec(|| {
            libc::alarm(60);
            Ok(())
        });
    }
    let mut child = match cmd.spawn() {
        Ok(c) => c,
        Err(e) => {
            eprintln!("ENGINE: cannot run {SFS_BIN}: {e}");
            std::process::exit(2);
        }
    };
    let mut stdin = child.stdin.take().expect("piped stdin");
    let owned: Vec<Vec<u8>> = chunks.iter().map(|c| c.to_vec()).collect();
    let writer = std::thread::spawn(move || {
        for (i, c) in owned.iter().enumerate() {
            if i > 0 {
                std::thread::sleep(std::time::Duration::from_millis(delay_ms));
            }
            if c.is_empty() {
                continue;
            }
            if stdin.write_all(c).is_err() {
                break;
            }
            let _ = stdin.flush();
        }
        drop(stdin);
    });
    let out = child.wait_with_output().expect("wait for sfs");
    let _ = writer.join();
    Out {
        code: out.status.code(),
        signal: out.status.signal(),
        stdout: out.stdout,
        stderr: out.stderr,
    }
}

/// How a consumer process is handed its input bytes.
#[derive(Clone, Copy, Debug, PartialEq, Eq)]
pub enum Transport {
    /// regular file opened as fd 0
    StdinFile,
    /// real OS pipe on fd 0, everything written in one go
    StdinPipe,
    /// regular file named on the command line
    PathFile,
    /// named pipe (FIFO) named on the command line; its metadata length is 0
    PathFifo,
    /// `/dev/stdin` named on the command line while fd 0 is a real pipe
    PathDevStdin,
}

impl Transport {
    pub const ALL: [Transport; 5] = [
        Transport::StdinFile,
        Transport::StdinPipe,
        Transport::PathFile,
        Transport::PathFifo,
        Transport::PathDevStdin,
    ];
    pub fn name(self) -> &'static str {
        match self {
            Transport::StdinFile => "stdin-file",
            Transport::StdinPipe => "stdin-pipe",
            Transport::PathFile => "path-file",
            Transport::PathFifo => "path-fifo",
            Transport::PathDevStdin => "path-devstdin-pipe",
        }
    }
    pub fn from_name(n: &str) -> Option<Transport> {
        Transport::ALL.iter().copied().find(|t| t.name() == n)
    }
}

/// Runs `sfs args... [path]` with `bytes` delivered through the given transport (the positional
/// input path, where the transport needs one, is appended as the last argument).
pub fn run_sfs_transport(args: &[&str], bytes: &[u8], transport: Transport, suffix: &str, scratch: &Scratch) -> Out {
    match transport {
        Transport::StdinFile => run_sfs(args, Stdin::Bytes(bytes), scratch),
        Transport::StdinPipe => run_sfs_piped(args, &[bytes], 0, scratch),
        Transport::PathFile => {
            let p = scratch.file(suffix, bytes);
            let mut a: Vec<&str> = args.to_vec();
            a.push(p.to_str().unwrap());
            let o = run_sfs(&a, Stdin::Null, scratch);
            let _ = fs::remove_file(&p);
            o
        }
        Transport::PathDevStdin => {
            let mut a: Vec<&str> = args.to_vec();
            a.push("/dev/stdin");
            run_sfs_piped(&a, &[bytes], 0, scratch)
        }
        Transport::PathFifo => run_sfs_fifo(args, bytes, suffix, scratch),
    }
}

/// Runs `sfs args... <fifo>` where `<fifo>` is a named pipe into which `bytes` are written by a
/// helper thread. If the subject never opens the FIFO the helper is released afterwards.
pub fn run_sfs_fifo(args: &[&str], bytes: &[u8], suffix: &str, scratch: &Scratch) -> Out {
    let mut a: Vec<&str> = args.to_vec();
    a.push("{FIFO}");
    run_sfs_fifo_at(&a, bytes, suffix, Stdin::Null, scratch)
}

/// Runs `sfs` with every `{FIFO}` argument replaced by the path of a named pipe into which `bytes`
/// are written by a helper thread; `stdin` is delivered as for `run_sfs`.
pub fn run_sfs_fifo_at(args: &[&str], bytes: &[u8], suffix: &str, stdin: Stdin, scratch: &Scratch) -> Out {
    use std::os::unix::fs::OpenOptionsExt;
    use std::sync::{atomic::AtomicBool, Arc};
    let path = scratch.path(&format!(".fifo{suffix}"));
    let c = std::ffi::CString::new(path.to_str().unwrap()).unwrap();
    // SAFETY: plain libc call with a valid NUL-terminated path.
    if unsafe { libc::mkfifo(c.as_ptr(), 0o600) } != 0 {
        eprintln!("ENGINE: mkfifo {} failed", path.display());
        std::process::exit(2);
    }
    let a: Vec<&str> = args.iter().map(|x| if *x == "{FIFO}" { path.to_str().unwrap() } else { *x }).collect();
    let mut cmd = Command::new(SFS_BIN);
    cmd.args(&a)
        .env_clear()
        .env("SFS_ALLOW_STDIN", "1")
        .env("RUST_BACKTRACE", "0")
        .current_dir(&scratch.dir)
        .stdout(Stdio::piped())
        .stderr(Stdio::piped());
    let mut tmp: Option<PathBuf> = None;
    match stdin {
        Stdin::Null => {
            cmd.stdin(Stdio::null());
        }
        Stdin::Bytes(b) => {
            let p = scratch.file(".stdin", b);
            cmd.stdin(fs::File::open(&p).expect("open stdin file"));
            tmp = Some(p);
        }
        Stdin::File(p) => {
            cmd.stdin(fs::File::open(p).expect("open stdin file"));
        }
    }
    // SAFETY: only async-signal-safe libc calls between fork and exec.
    unsafe {
        cmd.pre_exec(|| {
            libc::alarm(60);
            Ok(())
        });
    }
    let child = match cmd.spawn() {
        Ok(c) => c,
        Err(e) => {
            eprintln!("ENGINE: cannot run {SFS_BIN}: {e}");
            std::process::exit(2);
        }
    };
    let done = Arc::new(AtomicBool::new(false));
    let owned = bytes.to_vec();
    let wpath = path.clone();
    let wdone = done.clone();
    let writer = std::thread::spawn(move || {
        // blocks until the subject (or the release below) opens the FIFO for reading
        if let Ok(mut f) = fs::OpenOptions::new().write(true).open(&wpath) {
            let _ = f.write_all(&owned);
        }
        wdone.store(true, Ordering::SeqCst);
    });
    let out = child.wait_with_output().expect("wait for sfs");
    // release a helper that is still blocked because the subject never opened / stopped reading
    if !done.load(Ordering::SeqCst) {
        if let Ok(mut f) = fs::OpenOptions::new().read(true).custom_flags(libc::O_NONBLOCK).open(&path) {
            use std::io::Read;
            let mut buf = [0u8; 65536];
            while !done.load(Ordering::SeqCst) {
                let _ = f.read(&mut buf);
                std::thread::sleep(std::time::Duration::from_millis(1));
            }
        }
    }
    let _ = writer.join();
    let _ = fs::remove_file(&path);
    if let Some(p) = tmp {
        let _ = fs::remove_file(p);
    }
    Out {
        code: out.status.code(),
        signal: out.status.signal(),
        stdout: out.stdout,
        stderr: out.stderr,
    }
}

/// Runs `sfs` with every `{FIFO}` argument replaced by the path of a named pipe that a helper thread
/// reads to its end; returns the run and the bytes that arrived through the pipe.
pub fn run_sfs_output_fifo(args: &[&str], stdin: &[u8], suffix: &str, scratch: &Scratch) -> (Out, Vec<u8>) {
    use std::io::Read;
    use std::os::unix::fs::OpenOptionsExt;
    use std::sync::{atomic::{AtomicBool, Ordering}, Arc};
    let path = scratch.path(&format!(".ofifo{suffix}"));
    let c = std::ffi::CString::new(path.to_str().unwrap()).unwrap();
    // SAFETY: plain libc call with a valid NUL-terminated path.
    if unsafe { libc::mkfifo(c.as_ptr(), 0o600) } != 0 {
        eprintln!("ENGINE: mkfifo {} failed", path.display());
        std::process::exit(2);
    }
    let a: Vec<&str> = args.iter().map(|x| if *x == "{FIFO}" { path.to_str().unwrap() } else { *x }).collect();
    let done = Arc::new(AtomicBool::new(false));
    let (rpath, rdone) = (path.clone(), done.clone());
    let reader = std::thread::spawn(move || {
        let mut v = Vec::new();
        // blocks until the subject (or the release below) opens the FIFO for writing
        if let Ok(mut f) = fs::File::open(&rpath) {
            let _ = f.read_to_end(&mut v);
        }
        rdone.store(true, Ordering::SeqCst);
        v
    });
    let o = run_sfs(&a, Stdin::Bytes(stdin), scratch);
    // release a helper that is still blocked because the subject never opened the FIFO
    let mut spins = 0;
    while !done.load(Ordering::SeqCst) && spins < 5000 {
        let _ = fs::OpenOptions::new().write(true).custom_flags(libc::O_NONBLOCK).open(&path);
        std::thread::sleep(std::time::Duration::from_millis(1));
        spins += 1;
    }
    let got = reader.join().unwrap_or_default();
    let _ = fs::remove_file(&path);
    (o, got)
}

/// Runs `sfs` with stdout connected to the file at `sink` (e.g. `/dev/full`); stdout is then not captured.
pub fn run_sfs_stdout_to(args: &[&str], stdin: &[u8], sink: &Path, scratch: &Scratch) -> Out {
    let inp = scratch.file(".stdin", stdin);
    let sink_f = match fs::OpenOptions::new().write(true).open(sink) {
        Ok(f) => f,
        Err(e) => {
            eprintln!("ENGINE: cannot open {}: {e}", sink.display());
            std::process::exit(2);
        }
    };
    let mut cmd = Command::new(SFS_BIN);
    cmd.args(args)
        .env_clear()
        .env("SFS_ALLOW_STDIN", "1")
        .env("RUST_BACKTRACE", "0")
        .current_dir(&scratch.dir)
        .stdin(fs::File::open(&inp).expect("open stdin file"))
        .stdout(sink_f)
        .stderr(Stdio::piped());
    // SAFETY: only async-signal-safe libc calls between fork and exec.
    unsafe {
        cmd.pre_exec(|| {
            libc::alarm(60);
            Ok(())
        });
    }
    let out = match cmd.output() {
        Ok(o) => o,
        Err(e) => {
            eprintln!("ENGINE: cannot run {SFS_BIN}: {e}");
            std::process::exit(2);
        }
    };
    let _ = fs::remove_file(inp);
    Out { code: out.status.code(), signal: out.status.signal(), stdout: Vec::new(), stderr: out.stderr }
}

/// Runs `sfs` with stdout connected to a pipe whose read end is already closed: every write to
/// stdout fails with EPIPE (Rust ignores SIGPIPE, so the process sees an error, not a signal).
pub fn run_sfs_stdout_closed_pipe(args: &[&str], stdin: &[u8], scratch: &Scratch) -> Out {
    use std::os::fd::FromRawFd;
    let inp = scratch.file(".stdin", stdin);
    let mut fds = [0i32; 2];
    // SAFETY: plain libc call with a valid two-element array.
    if unsafe { libc::pipe(fds.as_mut_ptr()) } != 0 {
        eprintln!("ENGINE: pipe() failed");
        std::process::exit(2);
    }
    // SAFETY: both descriptors were just created by pipe() and are owned here.
    let (rd, wr) = unsafe { (fs::File::from_raw_fd(fds[0]), fs::File::from_raw_fd(fds[1])) };
    drop(rd);
    let mut cmd = Command::new(SFS_BIN);
    cmd.args(args)
        .env_clear()
        .env("SFS_ALLOW_STDIN", "1")
        .env("RUST_BACKTRACE", "0")
        .current_dir(&scratch.dir)
        .stdin(fs::File::open(&inp).expect("open stdin file"))
        .stdout(wr)
        .stderr(Stdio::piped());
    // SAFETY: only async-signal-safe libc calls between fork and exec.
    unsafe {
        cmd.pre_exec(|| {
            libc::alarm(60);
            Ok(())
        });
    }
    let out = match cmd.output() {
        Ok(o) => o,
        Err(e) => {
            eprintln!("ENGINE: cannot run {SFS_BIN}: {e}");
            std::process::exit(2);
        }
    };
    let _ = fs::remove_file(inp);
    Out { code: out.status.code(), signal: out.status.signal(), stdout: Vec::new(), stderr: out.stderr }
}
