//! Driver for the real `sfs` binary built from /repo's working tree (layer L2).

use std::{
    fs,
    io::Write,
    os::unix::process::{CommandExt, ExitStatusExt},
    path::{Path, PathBuf},
    process::{Command, Stdio},
    sync::atomic::{AtomicU64, Ordering},
};

use crate::json::{bytes_j, J};

pub const SFS_BIN: &str = "/verif/target/cli/release/sfs";
/// Root of the per-process scratch directories.
pub const SCRATCH_ROOT: &str = "/verif/target/scratch";

#[derive(Clone, Debug)]
pub struct Out {
    pub code: Option<i32>,
    pub signal: Option<i32>,
    pub stdout: Vec<u8>,
    pub stderr: Vec<u8>,
}

impl Out {
    pub fn ok(&self) -> bool {
        self.code == Some(0)
    }
    pub fn stdout_str(&self) -> String {
        String::from_utf8_lossy(&self.stdout).into_owned()
    }
    pub fn stderr_str(&self) -> String {
        String::from_utf8_lossy(&self.stderr).into_owned()
    }
    pub fn panicked(&self) -> bool {
        self.code == Some(101) || self.stderr_str().contains("panicked at")
    }
    pub fn timed_out(&self) -> bool {
        self.signal == Some(libc::SIGALRM) || self.signal == Some(libc::SIGXCPU)
    }
    /// Memory-limit abort under the harness's own RLIMIT_AS: inconclusive, never a verdict.
    pub fn oom(&self) -> bool {
        self.signal == Some(libc::SIGABRT) && self.stderr_str().contains("memory allocation of")
    }
    /// Diagnosed error: non-zero exit status (not 101, not a signal) with non-empty stderr.
    pub fn diagnosed_error(&self) -> bool {
        matches!(self.code, Some(c) if c != 0 && c != 101)
            && !self.stderr.is_empty()
            && !self.panicked()
    }
    pub fn status_str(&self) -> String {
        match (self.code, self.signal) {
            (Some(c), _) => format!("exit {c}"),
            (None, Some(s)) => format!("signal {s}"),
            _ => "unknown".into(),
        }
    }
    pub fn to_j(&self) -> J {
        J::obj([
            ("status", J::s(self.status_str())),
            ("stdout", bytes_j(&self.stdout[..self.stdout.len().min(2000)])),
            ("stderr", bytes_j(&self.stderr[..self.stderr.len().min(2000)])),
        ])
    }
    /// First line of the panic message with its source file, for failure keys.
    pub fn panic_site(&self) -> String {
        let s = self.stderr_str();
        // thread 'main' panicked at core/src/x.rs:12:5:\nmessage
        if let Some(i) = s.find("panicked at ") {
            let rest = &s[i + 12..];
            let mut lines = rest.lines();
            let loc = lines.next().unwrap_or("");
            let file = loc.split(':').next().unwrap_or("");
            let msg = lines.next().unwrap_or("");
            return format!(
                "{} \"{}\"",
                crate::verdict::short_path(file),
                crate::verdict::norm_msg(msg)
            );
        }
        format!("no panic message ({})", self.status_str())
    }
}

pub enum Stdin<'a> {
    Null,
    /// Bytes delivered through a regular file opened as fd 0 (deterministic read sizes).
    Bytes(&'a [u8]),
    /// An existing file.
    File(&'a Path),
}

/// A device node of the harness's own that behaves like `/dev/full` (`full` = true) or `/dev/null`:
/// a subject that mistreats its sink (removes or replaces it) then damages this node, not the
/// system's. Falls back to the system's node where device nodes cannot be made.
pub fn private_device(full: bool) -> &'static str {
    static FULL: std::sync::OnceLock<String> = std::sync::OnceLock::new();
    static NULL: std::sync::OnceLock<String> = std::sync::OnceLock::new();
    let make = |name: &str, minor: u32, fallback: &str| -> String {
        let _ = fs::create_dir_all(SCRATCH_ROOT);
        let path = format!("{SCRATCH_ROOT}/{name}-{}", std::process::id());
        let _ = fs::remove_file(&path);
        let c = std::ffi::CString::new(path.clone()).unwrap();
        // SAFETY: plain libc call with a valid NUL-terminated path.
        let rc = unsafe { libc::mknod(c.as_ptr(), libc::S_IFCHR | 0o666, libc::makedev(1, minor)) };
        let usable = rc == 0 && fs::OpenOptions::new().write(true).open(&path).is_ok();
        if usable {
            path
        } else {
            let _ = fs::remove_file(&path);
            fallback.to_string()
        }
    };
    let (cell, name, minor, fallback) = if full { (&FULL, "dev-full", 7, "/dev/full") } else { (&NULL, "dev-null", 3, "/dev/null") };
    let path = cell.get_or_init(|| make(name, minor, fallback));
    // a subject may have removed or replaced the node in an earlier run: put it back
    if path.as_str() != fallback {
        use std::os::unix::fs::FileTypeExt;
        let intact = fs::metadata(path).map(|m| m.file_type().is_char_device()).unwrap_or(false);
        if !intact {
            let _ = fs::remove_file(path);
            let _ = fs::remove_dir_all(path);
            if let Ok(c) = std::ffi::CString::new(path.clone()) {
                // SAFETY: plain libc call with a valid NUL-terminated path.
                unsafe { libc::mknod(c.as_ptr(), libc::S_IFCHR | 0o666, libc::makedev(1, minor)) };
            }
        }
    }
    path
}

/// Removes the private device nodes of this process (end of a run).
pub fn remove_private_devices() {
    for name in ["dev-full", "dev-null"] {
        let _ = fs::remove_file(format!("{SCRATCH_ROOT}/{name}-{}", std::process::id()));
    }
}

/// The time caps of a subject process, set between fork and exec: `cpu_s` seconds of *CPU time*
/// (SIGXCPU; independent of how busy the machine is, so that a slow but terminating run on a loaded
/// machine is not taken for a hang) and ten times as many seconds of wall time (SIGALRM; for a
/// process that blocks without computing).
///
/// # Safety
/// Only async-signal-safe libc calls; meant for `pre_exec`.
unsafe fn arm_caps(cpu_s: u32) {
    let lim = libc::rlimit { rlim_cur: cpu_s as libc::rlim_t, rlim_max: cpu_s as libc::rlim_t + 5 };
    libc::setrlimit(libc::RLIMIT_CPU, &lim);
    libc::alarm(cpu_s.saturating_mul(10));
}

/// Per-process scratch directory under /verif/target/scratch, removed at exit.
pub struct Scratch {
    pub dir: PathBuf,
    counter: AtomicU64,
}

impl Scratch {
    pub fn new(tag: &str) -> Scratch {
        let dir = PathBuf::from(format!("{SCRATCH_ROOT}/{}-{}", tag, std::process::id()));
        let _ = fs::remove_dir_all(&dir);
        fs::create_dir_all(&dir).expect("cannot create scratch dir");
        Scratch {
            dir,
            counter: AtomicU64::new(0),
        }
    }
    /// A fresh unique path with the given suffix.
    pub fn path(&self, suffix: &str) -> PathBuf {
        let n = self.counter.fetch_add(1, Ordering::Relaxed);
        self.dir.join(format!("f{n}{suffix}"))
    }
    pub fn file(&self, suffix: &str, bytes: &[u8]) -> PathBuf {
        let p = self.path(suffix);
        let mut f = fs::File::create(&p).expect("scratch create");
        f.write_all(bytes).expect("scratch write");
        p
    }
}

impl Drop for Scratch {
    fn drop(&mut self) {
        let _ = fs::remove_dir_all(&self.dir);
    }
}

pub struct Limits {
    pub wall_s: u32,
    pub mem_bytes: u64,
}

impl Default for Limits {
    fn default() -> Self {
        Limits {
            wall_s: 60,
            mem_bytes: 4 << 30,
        }
    }
}

/// `run_sfs` with a final path argument that need not be valid UTF-8 (stdin is empty).
pub fn run_sfs_with_path(args: &[&str], path: &Path, scratch: &Scratch) -> Out {
    let mut cmd = Command::new(SFS_BIN);
    cmd.args(args).arg(path).env_clear().env("SFS_ALLOW_STDIN", "1").env("RUST_BACKTRACE", "0").current_dir(&scratch.dir).stdin(Stdio::null()).stdout(Stdio::piped()).stderr(Stdio::piped());
    // SAFETY: only async-signal-safe libc calls between fork and exec.
    unsafe {
        cmd.pre_exec(|| {
            arm_caps(60);
            Ok(())
        });
    }
    let out = match cmd.output() {
        Ok(o) => o,
        Err(e) => {
            eprintln!("ENGINE: cannot run {SFS_BIN}: {e}");
            std::process::exit(2);
        }
    };
    Out { code: out.status.code(), signal: out.status.signal(), stdout: out.stdout, stderr: out.stderr }
}

pub fn run_sfs(args: &[&str], stdin: Stdin, scratch: &Scratch) -> Out {
    run_sfs_env(args, stdin, scratch, &[], &Limits::default())
}

pub fn run_sfs_env(
    args: &[&str],
    stdin: Stdin,
    scratch: &Scratch,
    env: &[(&str, &str)],
    limits: &Limits,
) -> Out {
    let mut cmd = Command::new(SFS_BIN);
    cmd.args(args)
        .env_clear()
        .env("SFS_ALLOW_STDIN", "1")
        .env("RUST_BACKTRACE", "0")
        .current_dir(&scratch.dir)
        .stdout(Stdio::piped())
        .stderr(Stdio::piped());
    // two pseudo variables are not passed on but acted on: the child is confined to CPU 0, or is
    // started in a directory that is removed before it runs
    let one_cpu = env.iter().any(|(k, _)| *k == "__SFSMC_ONE_CPU");
    let deleted_cwd = env.iter().any(|(k, _)| *k == "__SFSMC_DELETED_CWD");
    for (k, v) in env {
        if !k.starts_with("__SFSMC_") {
            cmd.env(k, v);
        }
    }
    let gone = if deleted_cwd {
        let d = scratch.path(".gone");
        fs::create_dir_all(&d).expect("scratch dir");
        cmd.current_dir(&d);
        Some(d)
    } else {
        None
    };
    let gone_c = gone.as_ref().map(|d| std::ffi::CString::new(d.to_str().unwrap()).unwrap());
    let mut tmp: Option<PathBuf> = None;
    match stdin {
        Stdin::Null => {
            cmd.stdin(Stdio::null());
        }
        Stdin::Bytes(b) => {
            let p = scratch.file(".stdin", b);
            cmd.stdin(fs::File::open(&p).expect("open stdin file"));
            tmp = Some(p);
        }
        Stdin::File(p) => {
            cmd.stdin(fs::File::open(p).expect("open stdin file"));
        }
    }
    let wall = limits.wall_s;
    let mem = limits.mem_bytes;
    // SAFETY: only async-signal-safe libc calls between fork and exec.
    unsafe {
        cmd.pre_exec(move || {
            let lim = libc::rlimit {
                rlim_cur: mem,
                rlim_max: mem,
            };
            libc::setrlimit(libc::RLIMIT_AS, &lim);
            let core = libc::rlimit {
                rlim_cur: 0,
                rlim_max: 0,
            };
            libc::setrlimit(libc::RLIMIT_CORE, &core);
            if one_cpu {
                let mut set: libc::cpu_set_t = std::mem::zeroed();
                libc::CPU_SET(0, &mut set);
                libc::sched_setaffinity(0, std::mem::size_of::<libc::cpu_set_t>(), &set);
            }
            if let Some(d) = &gone_c {
                // (the child already is in the directory; removing it leaves it without a path)
                libc::rmdir(d.as_ptr());
            }
            // wall-clock cap: the alarm survives exec; SIGALRM's default action terminates
            arm_caps(wall);
            Ok(())
        });
    }
    let out = match cmd.output() {
        Ok(o) => o,
        Err(e) => {
            eprintln!("ENGINE: cannot run {SFS_BIN}: {e}");
            std::process::exit(2);
        }
    };
    if let Some(p) = tmp {
        let _ = fs::remove_file(p);
    }
    Out {
        code: out.status.code(),
        signal: out.status.signal(),
        stdout: out.stdout,
        stderr: out.stderr,
    }
}

/// Runs a shell-free pipeline `sfs a... | sfs b... | ...`, feeding each stage's stdout to the next
/// stage's stdin through a scratch file; returns all stage outputs.
pub fn run_chain(stages: &[Vec<String>], first_stdin: &[u8], scratch: &Scratch) -> Vec<Out> {
    let mut outs: Vec<Out> = Vec::new();
    let mut input: Vec<u8> = first_stdin.to_vec();
    for st in stages {
        let args: Vec<&str> = st.iter().map(|s| s.as_str()).collect();
        let o = run_sfs(&args, Stdin::Bytes(&input), scratch);
        input = o.stdout.clone();
        let failed = !o.ok();
        outs.push(o);
        if failed {
            break;
        }
    }
    outs
}

pub fn argv_j(args: &[&str]) -> J {
    J::strs(args)
}

/// Parses the text spectrum format `#SHAPE=<a/b>\nv v v\n` strictly; returns (shape, tokens).
pub fn parse_text_spectrum(s: &str) -> Result<(Vec<usize>, Vec<String>), String> {
    let mut lines = s.split('\n');
    let head = lines.next().ok_or("no header")?;
    let inner = head
        .strip_prefix("#SHAPE=<")
        .and_then(|x| x.strip_suffix('>'))
        .ok_or_else(|| format!("bad header '{head}'"))?;
    let shape: Vec<usize> = inner
        .split('/')
        .map(|t| t.parse::<usize>().map_err(|e| format!("bad shape: {e}")))
        .collect::<Result<_, _>>()?;
    let body = lines.next().ok_or("no value line")?;
    let rest: Vec<&str> = lines.collect();
    if rest != [""] {
        return Err(format!("unexpected trailing lines {rest:?}"));
    }
    let toks: Vec<String> = if body.is_empty() {
        Vec::new()
    } else {
        body.split(' ').map(|s| s.to_string()).collect()
    };
    Ok((shape, toks))
}

pub fn parse_f64_tokens(toks: &[String]) -> Result<Vec<f64>, String> {
    toks.iter()
        .map(|t| t.parse::<f64>().map_err(|e| format!("bad value '{t}': {e}")))
        .collect()
}

/// Runs `sfs` with stdin connected to a real pipe; `chunks` are written one `write` call each,
/// with `delay_ms` between them (arrival timing is then OS-dependent: confirmation only).
pub fn run_sfs_piped(args: &[&str], chunks: &[&[u8]], delay_ms: u64, scratch: &Scratch) -> Out {
    let mut cmd = Command::new(SFS_BIN);
    cmd.args(args)
        .env_clear()
        .env("SFS_ALLOW_STDIN", "1")
        .env("RUST_BACKTRACE", "0")
        .current_dir(&scratch.dir)
        .stdin(Stdio::piped())
        .stdout(Stdio::piped())
        .stderr(Stdio::piped());
    // SAFETY: only async-signal-safe libc calls between fork and exec.
    unsafe {
        cmd.pre_exec(|| {
            arm_caps(60);
            Ok(())
        });
    }
    let mut child = match cmd.spawn() {
        Ok(c) => c,
        Err(e) => {
            eprintln!("ENGINE: cannot run {SFS_BIN}: {e}");
            std::process::exit(2);
        }
    };
    let mut stdin = child.stdin.take().expect("piped stdin");
    let owned: Vec<Vec<u8>> = chunks.iter().map(|c| c.to_vec()).collect();
    let writer = std::thread::spawn(move || {
        for (i, c) in owned.iter().enumerate() {
            if i > 0 {
                std::thread::sleep(std::time::Duration::from_millis(delay_ms));
            }
            if c.is_empty() {
                continue;
            }
            if stdin.write_all(c).is_err() {
                break;
            }
            let _ = stdin.flush();
        }
        drop(stdin);
    });
    let out = child.wait_with_output().expect("wait for sfs");
    let _ = writer.join();
    Out {
        code: out.status.code(),
        signal: out.status.signal(),
        stdout: out.stdout,
        stderr: out.stderr,
    }
}

/// How a consumer process is handed its input bytes.
#[derive(Clone, Copy, Debug, PartialEq, Eq)]
pub enum Transport {
    /// regular file opened as fd 0
    StdinFile,
    /// real OS pipe on fd 0, everything written in one go
    StdinPipe,
    /// regular file named on the command line
    PathFile,
    /// named pipe (FIFO) named on the command line; its metadata length is 0
    PathFifo,
    /// `/dev/stdin` named on the command line while fd 0 is a real pipe
    PathDevStdin,
}

impl Transport {
    pub const ALL: [Transport; 5] = [
        Transport::StdinFile,
        Transport::StdinPipe,
        Transport::PathFile,
        Transport::PathFifo,
        Transport::PathDevStdin,
    ];
    pub fn name(self) -> &'static str {
        match self {
            Transport::StdinFile => "stdin-file",
            Transport::StdinPipe => "stdin-pipe",
            Transport::PathFile => "path-file",
            Transport::PathFifo => "path-fifo",
            Transport::PathDevStdin => "path-devstdin-pipe",
        }
    }
    pub fn from_name(n: &str) -> Option<Transport> {
        Transport::ALL.iter().copied().find(|t| t.name() == n)
    }
}

/// Runs `sfs args... [path]` with `bytes` delivered through the given transport (the positional
/// input path, where the transport needs one, is appended as the last argument).
pub fn run_sfs_transport(args: &[&str], bytes: &[u8], transport: Transport, suffix: &str, scratch: &Scratch) -> Out {
    match transport {
        Transport::StdinFile => run_sfs(args, Stdin::Bytes(bytes), scratch),
        Transport::StdinPipe => run_sfs_piped(args, &[bytes], 0, scratch),
        Transport::PathFile => {
            let p = scratch.file(suffix, bytes);
            let mut a: Vec<&str> = args.to_vec();
            a.push(p.to_str().unwrap());
            let o = run_sfs(&a, Stdin::Null, scratch);
            let _ = fs::remove_file(&p);
            o
        }
        Transport::PathDevStdin => {
            let mut a: Vec<&str> = args.to_vec();
            a.push("/dev/stdin");
            run_sfs_piped(&a, &[bytes], 0, scratch)
        }
        Transport::PathFifo => run_sfs_fifo(args, bytes, suffix, scratch),
    }
}

/// Runs `sfs args... <fifo>` where `<fifo>` is a named pipe into which `bytes` are written by a
/// helper thread. If the subject never opens the FIFO the helper is released afterwards.
pub fn run_sfs_fifo(args: &[&str], bytes: &[u8], suffix: &str, scratch: &Scratch) -> Out {
    let mut a: Vec<&str> = args.to_vec();
    a.push("{FIFO}");
    run_sfs_fifo_at(&a, bytes, suffix, Stdin::Null, scratch)
}

/// Runs `sfs` with every `{FIFO}` argument replaced by the path of a named pipe into which `bytes`
/// are written by a helper thread; `stdin` is delivered as for `run_sfs`.
pub fn run_sfs_fifo_at(args: &[&str], bytes: &[u8], suffix: &str, stdin: Stdin, scratch: &Scratch) -> Out {
    use std::os::unix::fs::OpenOptionsExt;
    use std::sync::{atomic::AtomicBool, Arc};
    let path = scratch.path(&format!(".fifo{suffix}"));
    let c = std::ffi::CString::new(path.to_str().unwrap()).unwrap();
    // SAFETY: plain libc call with a valid NUL-terminated path.
    if unsafe { libc::mkfifo(c.as_ptr(), 0o600) } != 0 {
        eprintln!("ENGINE: mkfifo {} failed", path.display());
        std::process::exit(2);
    }
    let a: Vec<&str> = args.iter().map(|x| if *x == "{FIFO}" { path.to_str().unwrap() } else { *x }).collect();
    let mut cmd = Command::new(SFS_BIN);
    cmd.args(&a)
        .env_clear()
        .env("SFS_ALLOW_STDIN", "1")
        .env("RUST_BACKTRACE", "0")
        .current_dir(&scratch.dir)
        .stdout(Stdio::piped())
        .stderr(Stdio::piped());
    let mut tmp: Option<PathBuf> = None;
    match stdin {
        Stdin::Null => {
            cmd.stdin(Stdio::null());
        }
        Stdin::Bytes(b) => {
            let p = scratch.file(".stdin", b);
            cmd.stdin(fs::File::open(&p).expect("open stdin file"));
            tmp = Some(p);
        }
        Stdin::File(p) => {
            cmd.stdin(fs::File::open(p).expect("open stdin file"));
        }
    }
    // SAFETY: only async-signal-safe libc calls between fork and exec.
    unsafe {
        cmd.pre_exec(|| {
            arm_caps(60);
            Ok(())
        });
    }
    let child = match cmd.spawn() {
        Ok(c) => c,
        Err(e) => {
            eprintln!("ENGINE: cannot run {SFS_BIN}: {e}");
            std::process::exit(2);
        }
    };
    let done = Arc::new(AtomicBool::new(false));
    let owned = bytes.to_vec();
    let wpath = path.clone();
    let wdone = done.clone();
    let writer = std::thread::spawn(move || {
        // blocks until the subject (or the release below) opens the FIFO for reading
        if let Ok(mut f) = fs::OpenOptions::new().write(true).open(&wpath) {
            let _ = f.write_all(&owned);
        }
        wdone.store(true, Ordering::SeqCst);
    });
    let out = child.wait_with_output().expect("wait for sfs");
    // release a helper that is still blocked because the subject never opened / stopped reading
    if !done.load(Ordering::SeqCst) {
        if let Ok(mut f) = fs::OpenOptions::new().read(true).custom_flags(libc::O_NONBLOCK).open(&path) {
            use std::io::Read;
            let mut buf = [0u8; 65536];
            while !done.load(Ordering::SeqCst) {
                let _ = f.read(&mut buf);
                std::thread::sleep(std::time::Duration::from_millis(1));
            }
        }
    }
    let _ = writer.join();
    let _ = fs::remove_file(&path);
    if let Some(p) = tmp {
        let _ = fs::remove_file(p);
    }
    Out {
        code: out.status.code(),
        signal: out.status.signal(),
        stdout: out.stdout,
        stderr: out.stderr,
    }
}

/// Runs `sfs` with every `{FIFO}` argument replaced by the path of a named pipe that a helper thread
/// reads to its end; returns the run and the bytes that arrived through the pipe.
pub fn run_sfs_output_fifo(args: &[&str], stdin: &[u8], suffix: &str, scratch: &Scratch) -> (Out, Vec<u8>) {
    use std::io::Read;
    use std::os::unix::fs::OpenOptionsExt;
    use std::sync::{atomic::{AtomicBool, Ordering}, Arc};
    let path = scratch.path(&format!(".ofifo{suffix}"));
    let c = std::ffi::CString::new(path.to_str().unwrap()).unwrap();
    // SAFETY: plain libc call with a valid NUL-terminated path.
    if unsafe { libc::mkfifo(c.as_ptr(), 0o600) } != 0 {
        eprintln!("ENGINE: mkfifo {} failed", path.display());
        std::process::exit(2);
    }
    let a: Vec<&str> = args.iter().map(|x| if *x == "{FIFO}" { path.to_str().unwrap() } else { *x }).collect();
    // the reading end is opened (non-blocking) before the subject starts and is held whatever the
    // subject does with the path - also when it never opens it or replaces it by something else
    let mut f = match fs::OpenOptions::new().read(true).custom_flags(libc::O_NONBLOCK).open(&path) {
        Ok(f) => f,
        Err(e) => {
            eprintln!("ENGINE: cannot open {}: {e}", path.display());
            std::process::exit(2);
        }
    };
    let done = Arc::new(AtomicBool::new(false));
    let rdone = done.clone();
    let reader = std::thread::spawn(move || {
        let mut v = Vec::new();
        let mut buf = vec![0u8; 1 << 16];
        loop {
            let finished = rdone.load(Ordering::SeqCst);
            match f.read(&mut buf) {
                Ok(0) => {
                    // no writer at the moment: before the subject has opened the pipe, or after it closed it
                    if finished {
                        break;
                    }
                    std::thread::sleep(std::time::Duration::from_micros(200));
                }
                Ok(n) => v.extend_from_slice(&buf[..n]),
                Err(e) if e.kind() == std::io::ErrorKind::WouldBlock => {
                    if finished {
                        break;
                    }
                    std::thread::sleep(std::time::Duration::from_micros(200));
                }
                Err(_) => break,
            }
        }
        v
    });
    let o = run_sfs(&a, Stdin::Bytes(stdin), scratch);
    done.store(true, Ordering::SeqCst);
    let got = reader.join().unwrap_or_default();
    let _ = fs::remove_file(&path);
    (o, got)
}

/// Runs `sfs` with stdout connected to the file at `sink` (e.g. `/dev/full`); stdout is then not captured.
pub fn run_sfs_stdout_to(args: &[&str], stdin: &[u8], sink: &Path, scratch: &Scratch) -> Out {
    let inp = scratch.file(".stdin", stdin);
    let mut attempt = 0;
    let sink_f = loop {
        match fs::OpenOptions::new().write(true).open(sink) {
            Ok(f) => break f,
            // (a subject running next to this one may just have removed the harness's own node)
            Err(_) if attempt < 5 && sink.starts_with(SCRATCH_ROOT) => {
                attempt += 1;
                let _ = private_device(true);
                std::thread::sleep(std::time::Duration::from_millis(2));
            }
            Err(e) => {
                eprintln!("ENGINE: cannot open {}: {e}", sink.display());
                std::process::exit(2);
            }
        }
    };
    let mut cmd = Command::new(SFS_BIN);
    cmd.args(args)
        .env_clear()
        .env("SFS_ALLOW_STDIN", "1")
        .env("RUST_BACKTRACE", "0")
        .current_dir(&scratch.dir)
        .stdin(fs::File::open(&inp).expect("open stdin file"))
        .stdout(sink_f)
        .stderr(Stdio::piped());
    // SAFETY: only async-signal-safe libc calls between fork and exec.
    unsafe {
        cmd.pre_exec(|| {
            arm_caps(60);
            Ok(())
        });
    }
    let out = match cmd.output() {
        Ok(o) => o,
        Err(e) => {
            eprintln!("ENGINE: cannot run {SFS_BIN}: {e}");
            std::process::exit(2);
        }
    };
    let _ = fs::remove_file(inp);
    Out { code: out.status.code(), signal: out.status.signal(), stdout: Vec::new(), stderr: out.stderr }
}

/// Runs `sfs` with stdout appended (`>>`) to a file that already holds `earlier`; returns the run and
/// what the file holds afterwards.
pub fn run_sfs_stdout_appended(args: &[&str], stdin: &[u8], earlier: &[u8], scratch: &Scratch) -> (Out, Vec<u8>) {
    let inp = scratch.file(".stdin", stdin);
    let sink = scratch.file(".appended", earlier);
    let sink_f = fs::OpenOptions::new().append(true).open(&sink).expect("open sink for appending");
    let mut cmd = Command::new(SFS_BIN);
    cmd.args(args)
        .env_clear()
        .env("SFS_ALLOW_STDIN", "1")
        .env("RUST_BACKTRACE", "0")
        .current_dir(&scratch.dir)
        .stdin(fs::File::open(&inp).expect("open stdin file"))
        .stdout(sink_f)
        .stderr(Stdio::piped());
    // SAFETY: only async-signal-safe libc calls between fork and exec.
    unsafe {
        cmd.pre_exec(|| {
            arm_caps(60);
            Ok(())
        });
    }
    let out = match cmd.output() {
        Ok(o) => o,
        Err(e) => {
            eprintln!("ENGINE: cannot run {SFS_BIN}: {e}");
            std::process::exit(2);
        }
    };
    let got = fs::read(&sink).unwrap_or_default();
    let _ = fs::remove_file(inp);
    let _ = fs::remove_file(sink);
    (Out { code: out.status.code(), signal: out.status.signal(), stdout: Vec::new(), stderr: out.stderr }, got)
}

/// Runs `sfs` with a terminal (the slave side of a fresh pseudo-terminal) on stdin; the input is
/// expected to be named in `args`. Returns `None` where no pseudo-terminal can be opened.
pub fn run_sfs_stdin_terminal(args: &[&str], scratch: &Scratch) -> Option<Out> {
    use std::os::fd::FromRawFd;
    let (mut master, mut slave) = (0 as libc::c_int, 0 as libc::c_int);
    // SAFETY: plain libc call; the two descriptors are owned below.
    if unsafe { libc::openpty(&mut master, &mut slave, std::ptr::null_mut(), std::ptr::null(), std::ptr::null()) } != 0 {
        return None;
    }
    // SAFETY: `slave` and `master` are fresh descriptors owned by nothing else.
    let slave_f = unsafe { fs::File::from_raw_fd(slave) };
    let master_f = unsafe { fs::File::from_raw_fd(master) };
    let mut cmd = Command::new(SFS_BIN);
    cmd.args(args)
        .env_clear()
        .env("RUST_BACKTRACE", "0")
        .current_dir(&scratch.dir)
        .stdin(slave_f)
        .stdout(Stdio::piped())
        .stderr(Stdio::piped());
    // SAFETY: only async-signal-safe libc calls between fork and exec.
    unsafe {
        cmd.pre_exec(|| {
            arm_caps(60);
            Ok(())
        });
    }
    let out = match cmd.output() {
        Ok(o) => o,
        Err(e) => {
            eprintln!("ENGINE: cannot run {SFS_BIN}: {e}");
            std::process::exit(2);
        }
    };
    drop(master_f);
    Some(Out { code: out.status.code(), signal: out.status.signal(), stdout: out.stdout, stderr: out.stderr })
}

/// Runs `sfs` without the test suite's SFS_ALLOW_STDIN and with stdin of the given kind: "directory"
/// (reads fail with EISDIR), "null", "closed", "empty-file", "file-with-data" or "terminal".
pub fn run_sfs_stdin_kind(args: &[&str], kind: &str, scratch: &Scratch) -> Out {
    use std::os::fd::FromRawFd;
    let mut cmd = Command::new(SFS_BIN);
    cmd.args(args).env_clear().env("RUST_BACKTRACE", "0").current_dir(&scratch.dir).stdout(Stdio::piped()).stderr(Stdio::piped());
    let mut master: Option<fs::File> = None;
    let mut close0 = false;
    match kind {
        "directory" => {
            cmd.stdin(fs::File::open(&scratch.dir).expect("open scratch dir"));
        }
        "closed" => {
            cmd.stdin(Stdio::null());
            close0 = true;
        }
        "empty-file" => {
            cmd.stdin(fs::File::open(scratch.file(".empty", b"")).expect("open"));
        }
        "file-with-data" => {
            cmd.stdin(fs::File::open(scratch.file(".data", b"#SHAPE=<2>\n1 2\n")).expect("open"));
        }
        "terminal" => {
            let (mut m, mut sl) = (0 as libc::c_int, 0 as libc::c_int);
            // SAFETY: plain libc call; the descriptors are owned below.
            if unsafe { libc::openpty(&mut m, &mut sl, std::ptr::null_mut(), std::ptr::null(), std::ptr::null()) } == 0 {
                // SAFETY: fresh descriptors owned by nothing else.
                cmd.stdin(unsafe { fs::File::from_raw_fd(sl) });
                master = Some(unsafe { fs::File::from_raw_fd(m) });
            } else {
                cmd.stdin(Stdio::null());
            }
        }
        _ => {
            cmd.stdin(Stdio::null());
        }
    }
    // SAFETY: only async-signal-safe libc calls between fork and exec.
    unsafe {
        cmd.pre_exec(move || {
            if close0 {
                libc::close(0);
            }
            arm_caps(60);
            Ok(())
        });
    }
    let out = match cmd.output() {
        Ok(o) => o,
        Err(e) => {
            eprintln!("ENGINE: cannot run {SFS_BIN}: {e}");
            std::process::exit(2);
        }
    };
    drop(master);
    Out { code: out.status.code(), signal: out.status.signal(), stdout: out.stdout, stderr: out.stderr }
}

/// Runs `sfs` with stdout connected to a pipe whose read end is already closed: every write to
/// stdout fails with EPIPE (Rust ignores SIGPIPE, so the process sees an error, not a signal).
pub fn run_sfs_stdout_closed_pipe(args: &[&str], stdin: &[u8], scratch: &Scratch) -> Out {
    use std::os::fd::FromRawFd;
    let inp = scratch.file(".stdin", stdin);
    let mut fds = [0i32; 2];
    // SAFETY: plain libc call with a valid two-element array.
    if unsafe { libc::pipe(fds.as_mut_ptr()) } != 0 {
        eprintln!("ENGINE: pipe() failed");
        std::process::exit(2);
    }
    // SAFETY: both descriptors were just created by pipe() and are owned here.
    let (rd, wr) = unsafe { (fs::File::from_raw_fd(fds[0]), fs::File::from_raw_fd(fds[1])) };
    drop(rd);
    let mut cmd = Command::new(SFS_BIN);
    cmd.args(args)
        .env_clear()
        .env("SFS_ALLOW_STDIN", "1")
        .env("RUST_BACKTRACE", "0")
        .current_dir(&scratch.dir)
        .stdin(fs::File::open(&inp).expect("open stdin file"))
        .stdout(wr)
        .stderr(Stdio::piped());
    // SAFETY: only async-signal-safe libc calls between fork and exec.
    unsafe {
        cmd.pre_exec(|| {
            arm_caps(60);
            Ok(())
        });
    }
    let out = match cmd.output() {
        Ok(o) => o,
        Err(e) => {
            eprintln!("ENGINE: cannot run {SFS_BIN}: {e}");
            std::process::exit(2);
        }
    };
    let _ = fs::remove_file(inp);
    Out { code: out.status.code(), signal: out.status.signal(), stdout: Vec::new(), stderr: out.stderr }
}

// ---------------------------------------------------------------------------------------------
// Respellings: other ways of writing the same command line.

/// (short, long, takes a value, the value is a comma-separated list, the value is numeric)
type OptSpec = (Option<&'static str>, &'static str, bool, bool, bool);

fn option_table(sub: &str) -> Vec<OptSpec> {
    let mut t: Vec<OptSpec> = vec![(Some("-q"), "--quiet", false, false, false), (Some("-v"), "--verbose", false, false, false)];
    match sub {
        "view" => t.extend([
            (Some("-o"), "--output", true, false, false),
            (Some("-O"), "--output-format", true, false, false),
            (Some("-m"), "--marginalize-remove", true, true, true),
            (Some("-M"), "--marginalize-keep", true, true, true),
            (None, "--mask-monomorphic", false, false, false),
            (Some("-n"), "--normalize", false, false, false),
            (Some("-p"), "--project-individuals", true, true, true),
            (None, "--project-shape", true, true, true),
            (None, "--precision", true, false, true),
        ]),
        "fold" => t.extend([(Some("-s"), "--fill", true, false, false), (Some("-o"), "--output", true, false, false), (Some("-p"), "--precision", true, false, true)]),
        "stat" => t.extend([
            (Some("-d"), "--delimiter", true, false, false),
            (Some("-H"), "--header", false, false, false),
            (Some("-p"), "--precision", true, true, true),
            (Some("-s"), "--statistics", true, true, false),
        ]),
        _ => t.extend([
            (None, "--precision", true, false, true),
            (Some("-p"), "--project-individuals", true, true, true),
            (None, "--project-shape", true, true, true),
            (Some("-s"), "--samples", true, true, false),
            (Some("-S"), "--samples-file", true, false, false),
            (None, "--strict", false, false, false),
            (Some("-t"), "--threads", true, false, true),
        ]),
    }
    t
}

/// Environments that must not change what the tool computes and prints on stdout.
pub const ENVIRONMENTS: [(&str, &[(&str, &str)]); 7] = [
    ("env-RUST_LOG-trace", &[("RUST_LOG", "trace")]),
    ("env-RUST_LOG-off-backtrace-full", &[("RUST_LOG", "off"), ("RUST_BACKTRACE", "full")]),
    ("env-locale-de_DE", &[("LANG", "de_DE.UTF-8"), ("LC_ALL", "de_DE.UTF-8"), ("LC_NUMERIC", "de_DE.UTF-8")]),
    ("env-NO_COLOR-dumb-terminal", &[("NO_COLOR", "1"), ("TERM", "dumb")]),
    ("env-forced-colour-20-columns", &[("CLICOLOR_FORCE", "1"), ("TERM", "xterm-256color"), ("COLUMNS", "20")]),
    ("env-TMPDIR-and-HOME-missing", &[("TMPDIR", "/nonexistent-dir"), ("HOME", "/nonexistent-home")]),
    ("env-one-thread-pools", &[("RAYON_NUM_THREADS", "1"), ("OMP_NUM_THREADS", "1")]),
];

/// Other spellings of `argv` (subcommand first) that mean the same: every option in its long form
/// with `=`, in its short form with the value attached, list values as repeated occurrences, the
/// options in reverse order behind the positional arguments, numbers with a leading `+` or zeros,
/// and the defaults spelled out. Returns `None` when a token is not understood (then nothing is
/// respelled).
pub fn respellings(argv: &[&str]) -> Option<Vec<(&'static str, Vec<String>)>> {
    let sub = *argv.first()?;
    let table = option_table(sub);
    // parse into (spec index, value) and positionals
    let mut opts: Vec<(usize, Option<String>)> = Vec::new();
    let mut positional: Vec<String> = Vec::new();
    let mut i = 1;
    while i < argv.len() {
        let tok = argv[i];
        if tok.starts_with('-') && tok.len() > 1 && tok != "-" {
            // clusters of verbosity flags such as -vv / -qq stay as they are
            let spec = if tok.chars().skip(1).all(|c| c == 'v') && tok.len() > 2 {
                for _ in 1..tok.len() {
                    opts.push((1, None));
                }
                i += 1;
                continue;
            } else if tok.chars().skip(1).all(|c| c == 'q') && tok.len() > 2 {
                for _ in 1..tok.len() {
                    opts.push((0, None));
                }
                i += 1;
                continue;
            } else {
                table.iter().position(|s| s.0 == Some(tok) || s.1 == tok)?
            };
            if table[spec].2 {
                opts.push((spec, Some(argv.get(i + 1)?.to_string())));
                i += 2;
            } else {
                opts.push((spec, None));
                i += 1;
            }
        } else {
            positional.push(tok.to_string());
            i += 1;
        }
    }
    let render = |f: &dyn Fn(&OptSpec, &Option<String>) -> Vec<String>, order_rev: bool, pos_first: bool| -> Vec<String> {
        let mut out = vec![sub.to_string()];
        if pos_first {
            out.extend(positional.iter().cloned());
        }
        let it: Vec<&(usize, Option<String>)> = if order_rev { opts.iter().rev().collect() } else { opts.iter().collect() };
        for (s, v) in it {
            out.extend(f(&table[*s], v));
        }
        if !pos_first {
            out.extend(positional.iter().cloned());
        }
        out
    };
    let plain = |s: &OptSpec, v: &Option<String>| -> Vec<String> {
        let name = s.0.unwrap_or(s.1).to_string();
        match v {
            Some(v) => vec![name, v.clone()],
            None => vec![name],
        }
    };
    let mut out: Vec<(&'static str, Vec<String>)> = Vec::new();
    out.push(("long-with-equals", render(&|s, v| match v { Some(v) => vec![format!("{}={v}", s.1)], None => vec![s.1.to_string()] }, false, false)));
    out.push(("short-attached", render(&|s, v| match (s.0, v) { (Some(sh), Some(v)) if !v.is_empty() => vec![format!("{sh}{v}")], _ => plain(s, v) }, false, false)));
    out.push(("lists-repeated", render(&|s, v| match v {
        Some(v) if s.3 && v.contains(',') => v.split(',').flat_map(|e| vec![s.0.unwrap_or(s.1).to_string(), e.to_string()]).collect(),
        _ => plain(s, v),
    }, false, false)));
    out.push(("options-reversed-after-positional", render(&plain, true, true)));
    out.push(("plus-and-zeros", render(&|s, v| match v {
        Some(v) if s.4 && !v.is_empty() => {
            let parts: Vec<String> = v.split(',').enumerate().map(|(k, e)| if e.chars().all(|c| c.is_ascii_digit()) && !e.is_empty() { if k % 2 == 0 { format!("+{e}") } else { format!("00{e}") } } else { e.to_string() }).collect();
            vec![s.0.unwrap_or(s.1).to_string(), parts.join(",")]
        }
        _ => plain(s, v),
    }, false, false)));
    // defaults spelled out (only those not given)
    let given = |long: &str| opts.iter().any(|(s, _)| table[*s].1 == long);
    let mut with_defaults = render(&plain, false, false);
    let mut extra: Vec<String> = Vec::new();
    match sub {
        "view" => {
            if !given("--output-format") {
                extra.extend(["--output-format".to_string(), "text".to_string()]);
            }
            if !given("--precision") {
                extra.extend(["--precision".to_string(), "6".to_string()]);
            }
        }
        "fold" => {
            if !given("--fill") {
                extra.extend(["--fill".to_string(), "nan".to_string()]);
            }
            if !given("--precision") {
                extra.extend(["--precision".to_string(), "6".to_string()]);
            }
        }
        "stat" => {
            if !given("--precision") {
                extra.extend(["--precision".to_string(), "6".to_string()]);
            }
            if !given("--delimiter") {
                extra.extend(["--delimiter".to_string(), ",".to_string()]);
            }
        }
        _ => {
            if !given("--threads") {
                extra.extend(["--threads".to_string(), "4".to_string()]);
            }
        }
    }
    if !extra.is_empty() {
        let at = with_defaults.len() - positional.len();
        for (k, e) in extra.into_iter().enumerate() {
            with_defaults.insert(at + k, e);
        }
        out.push(("defaults-spelled-out", with_defaults));
    }
    let canonical: Vec<String> = argv.iter().map(|s| s.to_string()).collect();
    out.retain(|(_, a)| *a != canonical);
    Some(out)
}

/// Runs `argv` and each of its respellings on `stdin`; a respelling that gives another exit status or
/// other stdout is returned as (kind, respelled argv, description).
pub fn respelling_differences(argv: &[&str], stdin: &[u8], scratch: &Scratch) -> Vec<(String, Vec<String>, String)> {
    let Some(variants) = respellings(argv) else { return Vec::new() };
    let base = run_sfs(argv, Stdin::Bytes(stdin), scratch);
    let mut out = Vec::new();
    for (kind, a) in variants {
        let av: Vec<&str> = a.iter().map(|s| s.as_str()).collect();
        let o = run_sfs(&av, Stdin::Bytes(stdin), scratch);
        if o.code != base.code || o.signal != base.signal || o.stdout != base.stdout {
            out.push((
                kind.to_string(),
                a.clone(),
                format!("{a:?} gives {} with {} bytes of output ({}), {argv:?} gives {} with {} bytes", o.status_str(), o.stdout.len(), o.stderr_str().lines().last().unwrap_or("").chars().take(160).collect::<String>(), base.status_str(), base.stdout.len()),
            ));
        }
    }
    // the same call over other routes: the hidden global --debug flag (its report belongs on stderr),
    // the input named as /dev/stdin, and, for the commands that have --output, the output written
    // over an existing, longer file
    let sub = argv[0];
    let canonical: Vec<String> = argv.iter().map(|s| s.to_string()).collect();
    let has_positional = respelled_positionals(argv).map_or(true, |n| n > 0);
    let mut routes: Vec<(&str, Vec<String>)> = Vec::new();
    let mut front = vec!["--debug".to_string()];
    front.extend(canonical.iter().cloned());
    routes.push(("debug-flag-in-front", front));
    let mut behind = canonical.clone();
    behind.insert(1, "--debug".to_string());
    routes.push(("debug-flag-behind-subcommand", behind));
    if !has_positional {
        let mut named = canonical.clone();
        named.push("/dev/stdin".to_string());
        routes.push(("input-named-dev-stdin", named));
    }
    for (kind, a) in routes {
        let av: Vec<&str> = a.iter().map(|s| s.as_str()).collect();
        // (/dev/stdin is then a pipe, not a regular file)
        let o = if kind == "input-named-dev-stdin" { run_sfs_piped(&av, &[stdin], 0, scratch) } else { run_sfs(&av, Stdin::Bytes(stdin), scratch) };
        if o.code != base.code || o.signal != base.signal || o.stdout != base.stdout {
            out.push((
                kind.to_string(),
                a.clone(),
                format!("{a:?} gives {} with {} bytes of output ({}), {argv:?} gives {} with {} bytes", o.status_str(), o.stdout.len(), o.stderr_str().lines().last().unwrap_or("").chars().take(160).collect::<String>(), base.status_str(), base.stdout.len()),
            ));
        }
    }
    if (sub == "view" || sub == "fold") && base.ok() && !argv.iter().any(|a| *a == "-o" || a.starts_with("--output") && !a.starts_with("--output-format")) {
        let mut old = base.stdout.clone();
        old.extend_from_slice(b"7 7 7 7 7 7 7 7 7 7 7 7 7 7 7 7 7 7 7 7 7 7 7 7 7 7 7 7 7 7 7 7\n");
        let path = scratch.file(".existing", &old);
        let mut a = canonical.clone();
        a.insert(1, path.to_str().unwrap().to_string());
        a.insert(1, "-o".to_string());
        let av: Vec<&str> = a.iter().map(|s| s.as_str()).collect();
        let o = run_sfs(&av, Stdin::Bytes(stdin), scratch);
        let written = fs::read(&path).unwrap_or_default();
        if !o.ok() || !o.stdout.is_empty() || written != base.stdout {
            out.push((
                "output-over-longer-existing-file".to_string(),
                a.clone(),
                format!("{a:?} gives {} and leaves {} bytes in the file, {argv:?} prints {} bytes", o.status_str(), written.len(), base.stdout.len()),
            ));
        }
        let _ = fs::remove_file(&path);
        // ... into a named pipe that somebody reads
        {
            let mut a = canonical.clone();
            a.insert(1, "{FIFO}".to_string());
            a.insert(1, "-o".to_string());
            let av: Vec<&str> = a.iter().map(|s| s.as_str()).collect();
            let (o, got) = run_sfs_output_fifo(&av, stdin, "", scratch);
            if !o.ok() || !o.stdout.is_empty() || got != base.stdout {
                out.push((
                    "output-into-a-named-pipe".to_string(),
                    a.clone(),
                    format!("{a:?} gives {} ({}) and sends {} bytes through the pipe, {argv:?} prints {} bytes", o.status_str(), o.stderr_str().lines().last().unwrap_or("").chars().take(160).collect::<String>(), got.len(), base.stdout.len()),
                ));
            }
        }
        // ... and over the input file itself (the input is read before the output is opened)
        if !has_positional {
            let path = scratch.file(".inplace", stdin);
            let mut a = canonical.clone();
            a.extend(["-o".to_string(), path.to_str().unwrap().to_string(), path.to_str().unwrap().to_string()]);
            let av: Vec<&str> = a.iter().map(|s| s.as_str()).collect();
            let o = run_sfs(&av, Stdin::Null, scratch);
            let written = fs::read(&path).unwrap_or_default();
            if !o.ok() || !o.stdout.is_empty() || written != base.stdout {
                out.push((
                    "output-onto-the-input-file".to_string(),
                    a.clone(),
                    format!("{a:?} gives {} ({}) and leaves {} bytes in the file, {argv:?} prints {} bytes", o.status_str(), o.stderr_str().lines().last().unwrap_or("").chars().take(160).collect::<String>(), written.len(), base.stdout.len()),
                ));
            }
            let _ = fs::remove_file(&path);
        }
    }
    // stdout appended to a file that already holds something (`>>`): the earlier content stays and
    // the output follows it
    if base.ok() {
        let earlier = b"# earlier output\n";
        let (o, got) = run_sfs_stdout_appended(argv, stdin, earlier, scratch);
        let mut expect = earlier.to_vec();
        expect.extend_from_slice(&base.stdout);
        if !o.ok() || got != expect {
            out.push((
                "stdout-appended-to-a-file".to_string(),
                canonical.clone(),
                format!("{argv:?} >> FILE gives {} and leaves {} bytes in a file that held {} bytes, the plain call prints {} bytes", o.status_str(), got.len(), earlier.len(), base.stdout.len()),
            ));
        }
    }
    // stdout on a full device: a run that cannot write what it would have printed does not succeed
    if base.ok() && !base.stdout.is_empty() {
        let o = run_sfs_stdout_to(argv, stdin, Path::new(private_device(true)), scratch);
        if o.ok() || !o.diagnosed_error() {
            out.push((
                "stdout-on-a-full-device".to_string(),
                canonical.clone(),
                format!("{argv:?} with stdout on a full device gives {} ({}), although none of its {} bytes of output can be written", o.status_str(), o.stderr_str().lines().last().unwrap_or("").chars().take(160).collect::<String>(), base.stdout.len()),
            ));
        }
    }
    // the input named by path while stdin is a terminal (an interactive shell), without the test
    // suite's SFS_ALLOW_STDIN
    if !has_positional {
        let path = scratch.file(".named", stdin);
        let mut a = canonical.clone();
        a.push(path.to_str().unwrap().to_string());
        let av: Vec<&str> = a.iter().map(|s| s.as_str()).collect();
        if let Some(o) = run_sfs_stdin_terminal(&av, scratch) {
            if o.code != base.code || o.signal != base.signal || o.stdout != base.stdout {
                out.push((
                    "input-by-path-with-a-terminal-on-stdin".to_string(),
                    a.clone(),
                    format!("{a:?} with a terminal on stdin gives {} with {} bytes of output ({}), {argv:?} on the same bytes gives {} with {} bytes", o.status_str(), o.stdout.len(), o.stderr_str().lines().last().unwrap_or("").chars().take(160).collect::<String>(), base.status_str(), base.stdout.len()),
                ));
            }
        }
        let _ = fs::remove_file(&path);
    }
    // the same call in other environments (a third of the command lines, chosen by their text): what
    // is logged, how messages are coloured, the locale and the temporary directory change neither the
    // exit status nor stdout
    if canonical.iter().flat_map(|a| a.bytes()).map(|b| b as usize).sum::<usize>() % 3 == 0 {
        let envs = ENVIRONMENTS;
        for (kind, env) in envs {
            let o = run_sfs_env(argv, Stdin::Bytes(stdin), scratch, env, &Limits::default());
            if o.code != base.code || o.signal != base.signal || o.stdout != base.stdout {
                out.push((
                    kind.to_string(),
                    canonical.clone(),
                    format!("{argv:?} with {env:?} in the environment gives {} with {} bytes of output ({}), without it {} with {} bytes", o.status_str(), o.stdout.len(), o.stderr_str().lines().last().unwrap_or("").chars().take(160).collect::<String>(), base.status_str(), base.stdout.len()),
                ));
            }
        }
    }
    // a text spectrum with CRLF line ends, and without the final line end
    if sub != "create" && stdin.starts_with(b"#SHAPE") && !has_positional {
        let text = String::from_utf8_lossy(stdin).to_string();
        let crlf = text.replace('\n', "\r\n");
        let bare = text.trim_end_matches('\n').to_string();
        let crlf_bare = crlf.trim_end_matches("\r\n").to_string();
        for (kind, input) in [("text-input-crlf", crlf), ("text-input-no-final-newline", bare), ("text-input-crlf-no-final-newline", crlf_bare)] {
            let o = run_sfs(argv, Stdin::Bytes(input.as_bytes()), scratch);
            if o.code != base.code || o.signal != base.signal || o.stdout != base.stdout {
                out.push((
                    kind.to_string(),
                    canonical.clone(),
                    format!("{argv:?} on the input in this spelling gives {} with {} bytes of output ({}), on the plain input {} with {} bytes", o.status_str(), o.stdout.len(), o.stderr_str().lines().last().unwrap_or("").chars().take(160).collect::<String>(), base.status_str(), base.stdout.len()),
                ));
            }
        }
    }
    // create: the sample list as a samples file in every line-end spelling, and given in parts
    if sub == "create" {
        if let Some(at) = argv.iter().position(|a| *a == "-s" || *a == "--samples") {
            if let Some(list) = argv.get(at + 1) {
                // ... and as a samples file that is a named pipe
                {
                    let content: String = list.split(',').map(|e| match e.split_once('=') { Some((n, l)) => format!("{n}\t{l}\n"), None => format!("{e}\n") }).collect();
                    let mut a: Vec<String> = canonical[..at].to_vec();
                    a.extend(["-S".to_string(), "{FIFO}".to_string()]);
                    a.extend(canonical[at + 2..].iter().cloned());
                    let av: Vec<&str> = a.iter().map(|s| s.as_str()).collect();
                    let o = run_sfs_fifo_at(&av, content.as_bytes(), ".samples", Stdin::Bytes(stdin), scratch);
                    if o.code != base.code || o.signal != base.signal || o.stdout != base.stdout {
                        out.push((
                            "samples-file-is-a-named-pipe".to_string(),
                            a.clone(),
                            format!("{a:?} gives {} with {} bytes of output ({}), {argv:?} gives {} with {} bytes", o.status_str(), o.stdout.len(), o.stderr_str().lines().last().unwrap_or("").chars().take(160).collect::<String>(), base.status_str(), base.stdout.len()),
                        ));
                    }
                }
                for (kind, spelled) in samples_spellings(list, scratch) {
                    let mut a: Vec<String> = canonical[..at].to_vec();
                    a.extend(spelled);
                    a.extend(canonical[at + 2..].iter().cloned());
                    if a == canonical {
                        continue;
                    }
                    let av: Vec<&str> = a.iter().map(|s| s.as_str()).collect();
                    let o = run_sfs(&av, Stdin::Bytes(stdin), scratch);
                    if o.code != base.code || o.signal != base.signal || o.stdout != base.stdout {
                        out.push((
                            kind.to_string(),
                            a.clone(),
                            format!("{a:?} gives {} with {} bytes of output ({}), {argv:?} gives {} with {} bytes", o.status_str(), o.stdout.len(), o.stderr_str().lines().last().unwrap_or("").chars().take(160).collect::<String>(), base.status_str(), base.stdout.len()),
                        ));
                    }
                }
            }
        }
    }
    out
}

/// Arguments that say the same as `-s LIST`: the list itself, the list in parts, and a samples file
/// (sample, tab, label) with LF or CRLF line ends, with and without the final line end, and mixed.
pub fn samples_spellings(list: &str, scratch: &Scratch) -> Vec<(&'static str, Vec<String>)> {
    let entries: Vec<&str> = list.split(',').collect();
    let lines: Vec<String> = entries.iter().map(|e| match e.split_once('=') { Some((n, l)) => format!("{n}\t{l}"), None => e.to_string() }).collect();
    let mut out: Vec<(&'static str, Vec<String>)> = vec![("samples-list", vec!["-s".to_string(), list.to_string()])];
    if entries.len() > 1 {
        out.push(("samples-list-in-parts", entries.iter().flat_map(|e| ["-s".to_string(), e.to_string()]).collect()));
    }
    let file = |kind: &'static str, content: String| -> (&'static str, Vec<String>) {
        let p = scratch.file(".samples", content.as_bytes());
        (kind, vec!["-S".to_string(), p.to_str().unwrap().to_string()])
    };
    out.push(file("samples-file-lf", lines.iter().map(|l| format!("{l}\n")).collect()));
    out.push(file("samples-file-lf-no-final-newline", lines.join("\n")));
    out.push(file("samples-file-crlf", lines.iter().map(|l| format!("{l}\r\n")).collect()));
    out.push(file("samples-file-crlf-no-final-newline", lines.join("\r\n")));
    out.push(file("samples-file-mixed-line-ends", lines.iter().enumerate().map(|(i, l)| if i % 2 == 0 { format!("{l}\r\n") } else { format!("{l}\n") }).collect()));
    out
}

/// Number of positional arguments of `argv` (None when a token is not understood).
fn respelled_positionals(argv: &[&str]) -> Option<usize> {
    let table = option_table(argv.first()?);
    let (mut i, mut n) = (1, 0);
    while i < argv.len() {
        let tok = argv[i];
        if tok.starts_with('-') && tok.len() > 1 {
            if tok[1..].chars().all(|c| c == 'v') || tok[1..].chars().all(|c| c == 'q') {
                i += 1;
                continue;
            }
            let spec = table.iter().position(|s| s.0 == Some(tok) || s.1 == tok)?;
            i += if table[spec].2 { 2 } else { 1 };
        } else {
            n += 1;
            i += 1;
        }
    }
    Some(n)
}
