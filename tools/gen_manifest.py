#!/usr/bin/env python3
"""Generates /verif/MANIFEST.json. Edit CHECKS below; run: python3 tools/gen_manifest.py"""
import json, os, subprocess

TRUST = ("Trusted base: rustc 1.95/std, the noodles-vcf/bcf/bgzf, flate2, nom and indexmap crates as locked in "
         "/repo/Cargo.lock, and the reference models in /verif/harness/src/refmodel.rs (written from the property "
         "statements and the cited papers). ")

# id -> (category, technique, text, note, design_ref)
CHECKS = {
 "C01": ("exploration",
         "bounded-exhaustive enumeration of genotype-class rows x sample->population maps on the real site reader and the real binary, against a reference computed from the classes",
         "Every sample map (each sample unselected or in population 0..3) over <=4 samples (thorough 5) x every row of genotype classes {0,1,2 ALT, missing, multiallelic}: each (map,row) as a single record, every 2-record sequence for 3 samples, and all rows in one stream, through the real site::Reader fed by an in-memory genotype source; unselected samples additionally given non-diploid genotypes. At L2 `sfs create -s` on generated VCFs: every (map,row) one-record file for 3 samples (thorough 4), the every-row call set as vcf, vcf.gz, bcf and raw bcf, and six decorations (extra INFO/FORMAT fields, two contigs, monomorphic, multi-ALT, all-missing, all-phased) as vcf and bcf. stdout must be the exact '#SHAPE' header plus exact integers.",
         TRUST + "Call sets with >5 samples or >4 populations are outside the bound; per-record processing is one uniform loop over samples.", "3 C01"),
 "C02": ("exploration",
         "bounded-exhaustive enumeration of class rows x maps x every projection target on the real projecting site reader and binary, against an exact hypergeometric reference",
         "Every sample map with <=2 populations (thorough <=3) of <=3 samples x every class row x every admissible target vector (m_j from 0 to the chromosome count), single records and the all-rows stream, through the real site::Reader with projection: skip decisions compared exactly, contributions within 1e-8 relative; the three site outcomes exact/projectable/insufficient are all reached and counted. Single-population cohorts of 100..1000 (thorough 2000) samples on a boundary grid that includes the 170!/171! table boundary and the former f64 overflow at 1030 chromosomes. At L2 `sfs create -s .. --project-shape / -p --precision p` for all 14 maps of 3 samples x all targets, -p vs --project-shape byte identity, precision 0/3/6/12, and the skipped count on stderr.",
         TRUST + "Cohort sizes between the grid points and >3 populations under projection are outside the bound.", "3 C02"),
 "C08": ("exploration",
         "complete enumeration of the finite GT-string alphabet through the real VCF and BCF decoding paths",
         "All 942 GT strings over alleles {., 0, 1, 2, 3, 10}, separators {/,|} and ploidy 1..3 x {vcf, raw bcf, vcf.gz, bcf} x {probe sample selected, unselected}, through the real format detection, noodles decoding, classification and site reader (L1), and `sfs create -vv` for all strings of ploidy <=2 and every tenth (thorough: every) ploidy-3 string with the 'Skipping sample .. Reason' trace lines and the error message naming contig:position as part of the observation (L2). The alphabet is finite and enumerated completely, so the check decides the classification rule on it.",
         TRUST + "A bare '.' GT may be classified as missing or as a ploidy error (the statement does not decide it). Allele indices other than those listed and ploidy >3 follow the same code path and are not enumerated.", "3 C08"),
 "C03": ("exploration",
         "bounded-exhaustive enumeration of projection-operator coefficients, basis-vector images and algebraic laws on the real code, against an exact-integer hypergeometric reference",
         "Every coefficient hypergeometric_pmf(N,K,n,k) for all arguments with N<=60 (thorough N<=200, crossing the 170! table boundary) plus a ladder of sizes up to 4 000 (thorough 40 000) chromosomes; Spectrum::project on every basis vector of every shape with <=3 axes (lengths <=4, thorough <=5; 4 axes at lengths <=2/3) for every admissible target, which decides the linear operator on those shapes; mass, non-negativity, bit-exact identity, two-step via every intermediate shape, commutation with marginalization, project(create)==create --project on complete call sets; every invalid target in a box; `sfs view --project-shape/-p` at L2. Exhaustive in the stated bound.",
         TRUST + "Tolerance |x-r|<=1e-8|r|+1e-13 (DESIGN 2.9). Spectra with >4 axes and non-boundary (K,n) at N>200 are outside the bound.", "3 C03"),
 "C04": ("exploration",
         "bounded-exhaustive enumeration of shapes x ordered axis lists on the real marginalize, with bit-label spectra whose sums identify their summands",
         "All 1 726 shapes with <=5 axes, lengths 1..6 and <=52 cells x every ordered list of distinct axes (joint and one-at-a-time), compared bit-exactly with a naive reference on bit-label spectra (each output cell names the exact multiset of input cells); thorough adds all 3 905 shapes (lengths <=5) under three integer labelings. Error clause on every list of length 0..d+1 over axes 0..d. L2: `sfs view -m` for every ordered list and `-M K` against the complement for every subset on a shape grid, and create|view -m == create of the remaining populations for all 51 sample maps of 4 samples. Marginalization is linear, so agreement on label spectra decides it for all value vectors of those shapes.",
         TRUST + "More than 5 axes is outside the bound (axes are handled by one uniform loop; first/middle/last axis and 5 axes are covered).", "3 C04"),
 "C05": ("exploration",
         "bounded-exhaustive enumeration of shapes x fills on the real fold, against the multi-index definition",
         "All 2 800 shapes with 1..4 axes and lengths 1..7 x fill in {nan,0,-1,inf}: every cell compared (bitwise, NaN-aware) with the definition on multi-indices, mass and idempotence with fill 0, fold(mirror x)==fold(x); bit-label spectra on the 814 shapes with <=52 cells, integer labelings and two special-value fillings (NaN, +-inf, -0, subnormal, huge) elsewhere; `sfs fold --fill` at L2. Folding is linear away from the fill cells, so label spectra decide it for all value vectors on those shapes.",
         TRUST + "Shapes with >4 axes or lengths >7 are outside the bound.", "3 C05"),
 "C06": ("exploration",
         "bounded-exhaustive enumeration of basis / two-cell spectra per statistic and shape, and of genotype-level call sets per population-size combination, against definitions typed from the papers",
         "(a) Each linear statistic on every basis spectrum and each ratio statistic on every one- and two-cell spectrum of every admissible shape with lengths 2..5 (thorough 6), which fixes every weight of numerator and denominator; the 1-D estimators (pi, theta, Tajima's D, Fu & Li's D, S, sum) for every n = 3..400 (thorough 1000) on basis, two-cell, neutral and skewed spectra against formulas typed from Tajima 1989, Fu & Li 1993, Watterson 1975, Bhatia 2013, Waples 2019. (b) For every combination of population sizes in {1,2,3}^d, d<=3 and {1,2}^4 a call set containing every complete genotype row (pattern-dependent multiplicity): statistics of the spectrum produced by the real create path, from the library and from `sfs create | sfs stat -s <all admissible> --precision 12`, against direct computation from the genotypes (pairwise differences by brute force, site means of frequency products, ratio of sums, genotype-pair counts).",
         TRUST + "Tolerance 1e-9 relative. Tajima's D at n=3 is identically 0/0 and is skipped. Population sizes >3 at the genotype level are outside the bound (covered at the coefficient level).", "3 C06"),
 "C12": ("exploration",
         "complete enumeration of the configuration grid container x BGZF layout x transport x thread count x repetition x sample configuration on the real binary; thread interleavings are OS-scheduled, not enumerated",
         "For three small call sets (incl. missing / multiallelic / two contigs / extra fields) and one of 2 600 records (~150 KiB, several 64 KiB BGZF blocks): every container {vcf, vcf.gz, bcf, raw bcf} x 12 BGZF block layouts (single block, one record per block, 1/7/64/4096/65280-byte blocks, empty block in front/middle/end, stored blocks, no EOF marker) x {path, stdin} x --threads 1..16 x 2 repetitions (fresh hash seeds) x 2 sample configurations: stdout and exit status must be byte-identical to the canonical run (plain VCF by path, 1 thread); plus real pipes, the same grid at L1 through the real reader construction with set_threads, and a hash-order observer that calls the population-size map until all d! iteration orders (d<=4) have been seen while the reported shape must never change.",
         TRUST + "NOT exhaustive: the interleaving of noodles-bgzf inflater threads inside one run (std::thread + crossbeam inside an unmodified dependency; sfs owns no synchronization). Those runs are OS-scheduled, i.e. sampled; evidence carries schedules_controlled=false. Exhaustive: everything sfs controls.", "3 C12, 4"),
 "C13": ("model_checking",
         "exhaustive enumeration of option combinations (operation sequences) of `sfs view`, each executed combined and as a chain of single-option invocations on the real binary, plus a reference model",
         "Spectra with 1..4 axes x all 16 subsets of {marginalize, project, mask, normalize} x every admissible marginalization set (as -m and as -M) x projection targets {identity, each axis -1, minimal, odd shape via -p} x output {text p6, text p12, npy}: (a) the combined invocation and (b) the chain of single-option invocations in the documented order connected by lossless npy pipes must be byte-identical; (c) the combined result must equal reference semantics (sum over removed axes, hypergeometric projection, zero exactly the all-zero and all-maximum cells, divide by the sum), which also catches a defect shared by both sides of (a)/(b). All 24 chaining orders are run on one case to show that the oracle separates orders (7 distinct outputs; only the documented order matches).",
         TRUST + "Quick rotates the output format over combinations instead of taking the full product (thorough does).", "3 C13"),
 "C14": ("exploration",
         "bounded-exhaustive enumeration of (shape, value set) pairs for metamorphic relations between two runs of the real statistics code",
         "On 1-D shapes n+1 = 3..12, 2-D {2..5}^2 (thorough 6), 3-D {2..3}^3 (thorough 4), 4-D {2,3}^4 with every basis spectrum, every two-cell spectrum (small shapes), a ramp and a powers-of-two spectrum: f3/f4 equal the documented linear combinations of f2 of the two-population marginals computed by the real marginalize + normalize; the 12 listed statistics are unchanged by folding with fill 0; all but sum/f2/f3/f4 are independent of the two monomorphic cells (values 0, 1, 1000); f2, Fst, pi_xy, KING, R0, R1 are unchanged by swapping the populations; scaling by {2, 1/2, 3, 1e-3, 1e6} leaves the ratio statistics unchanged and scales the count statistics. At L2: every statistic alone vs inside the full -s list, `sfs fold --fill zero | sfs stat`, and scaled inputs through the full list.",
         TRUST + "Relations compare two evaluations of the implementation (no reference needed); NaN on both sides counts as equal.", "3 C14"),
 "C17": ("exploration",
         "complete enumeration of an invocation grid and of single-fault neighbourhoods of valid inputs on the real binary (built with overflow checks)",
         "(i) 14 statistics x every shape with 1..4 axes and lengths 1..4 plus zero-length-axis shapes; (ii) 13 view/fold option sets x the same shapes; (iii) option values at and beyond bounds (precision up to 2^64-1, projection up to 2^64-1, marginalization axes incl. duplicates / out-of-range / all, threads 0..2^64-1, delimiter); (iv) absurd declared shapes and header lengths in text and npy; (v) every sample list of <=3 entries over 2 samples x {unlabelled, A, B} with repetition, and odd spellings; (vi) every prefix of length 0..12 of a text/npy/vcf/vcf.gz/bcf/raw-bcf file to each subcommand; (vii) every single-bit flip, single-byte deletion, truncation and huge-number substitution of one valid text and npy file (thorough: also vcf, vcf.gz, bcf, raw bcf completely; quick: every 5th byte of vcf and raw bcf). Oracle: exit 0 or non-zero with a diagnostic; never exit 101, 'panicked at', a signal or a timeout.",
         TRUST + "'Arbitrary bytes' is replaced by single-fault neighbourhoods; two-fault combinations are outside the bound. Allocation / thread-creation failures under the harness's own 16 GiB address-space cap are counted as inconclusive. Known findings (dependency panics) are listed in KNOWN_FINDINGS.txt.", "3 C17"),
 "C07": ("exploration",
         "bounded-exhaustive enumeration of shapes x special values x precisions x formats on the real writer/reader, and of the complete producer x format x sink x consumer matrix on the real binary",
         "All 1 049 shapes with 1..6 axes, lengths 1..4 and <=24 cells filled from a 16-value special alphabet (+-0, subnormal, huge, NaN incl. a signalling payload, +-inf, 1/3) x precision 0..17 x {text, npy}: io::write::Builder bytes read back by Array::read_npy and the auto-detecting io::read::Builder (npy bit-identical, text within half a unit of the p-th decimal); every special value alone at every precision. At L2 the complete matrix producer{create,view,fold} x format x sink{stdout, -o fresh file, -o over a longer existing file} x consumer{view,fold,stat} x 6 spectra, and text->npy->text token identity for all 3-digit mantissas x 13 exponents x 4 precisions.",
         TRUST + "'All f64 values' is replaced by the special-value alphabet and all 3-digit mantissas; a printing defect for one specific other mantissa is outside the bound. The text oracle allows half an ulp for the decimal->binary rounding on reading.", "3 C07"),
 "C09": ("exploration",
         "complete enumeration of ordered labelled sample lists (and input column permutations) on the real sample-map / site-reader code and the real binary",
         "All 7 888 ordered lists of distinct samples out of 4 with every labelling {unlabelled, A, B, C} (thorough: lists of <=4 out of 5 samples), on a 6-record call set whose sample columns are pairwise different so that every axis permutation and subset shows in the output: shape and every cell compared with a reference that assigns axis j to the j-th distinct label in list order. All 24 permutations of the input sample columns for every list of 3 samples and a slice (thorough: all) of 4. At L2 every list of 3 samples (and a slice / all of 4) as --samples and as --samples-file with byte-identical stdout; absent sample (also case-differing), empty and missing file must be errors with empty stdout.",
         TRUST + "More than 4 populations / 5 samples and duplicate entries in a list are outside the alphabet (the latter is a C17 matter).", "3 C09"),
 "C10": ("model_checking",
         "exhaustive exploration of record-stream histories over a site-kind alphabet, each executed on the real binary and compared with a reference model",
         "All record streams of length 0..3 (thorough 0..4) over a 9-symbol alphabet {counted, missing-in-p0, multiallelic, exactly-sufficient, insufficient-in-p0, insufficient-in-p1, ploidy-error, ploidy-error-after-a-missing-sample, corrupt-line} plus all length-4 (5) streams over a 5-symbol sub-alphabet, for 4 samples in 2 populations, x modes {default, --strict, --project-shape 3,3}: every failure kind is thereby placed at every position of the stream, before and after every other symbol. Oracle: the reference create for the spectrum; mass + reported skipped = records read, Y of 'Skipped X/Y' = records; failure at the first failing record in input order naming its contig:position (skips and ploidy errors); failing runs write nothing to stdout; a strict run without failing record is byte-identical to the default run.",
         TRUST + "Streams longer than the bound are outside; C11 separately shows the per-record state is memoryless. The position named for an unparseable record is not checked (not promised).", "3 C10"),
 "C11": ("model_checking",
         "explicit-state BFS over the hidden per-record state of the real site::Reader (hook verif_state) with a differential and a reference oracle on every transition, plus all bounded histories",
         "For three reader set-ups (no projection, projection to (2,2) and to (4,1) chromosomes; 2 populations x 2 samples) and an alphabet of 15 site kinds, breadth-first search from the initial state: a state is the canonical snapshot (counts, totals, number of skipped samples, projection scratch buffer) after a record was read and consumed; every transition calls the real read_site and requires the Site produced to be bit-identical to what a fresh reader produces for that kind and equal to the reference. The frontier empties (15/19/21 states), so the claim holds for histories of any length over the alphabet as far as the snapshot captures the state; in addition every history of length <=3 (thorough <=4) is executed and must accumulate to the sum of single-site contributions, and at L2 all (a third of) 720 permutations and 140 split points of a 6-record VCF, with and without projection.",
         TRUST + "State outside the hook snapshot is covered only up to the history length bound. With projection, equality is up to 1e-9 (floating-point summation order).", "3 C11"),
 "C15": ("exploration",
         "exhaustive enumeration of header-length residues / shapes for the writer and of the dtype x byte-order x version x spelling matrix for the reader, judged by a strict NEP-1 parser and a numpy-written corpus",
         "Writer: Array::write_npy and `sfs view -O npy` for a shape family that hits every header length modulo 64 (measured: 64/64 residues) plus all 340 small shapes, each file checked field by field by a strict NPY 1.0 parser written from the specification (magic, version, LE length, 64-byte alignment, newline, ASCII, exact dict, LE doubles, no trailing bytes). Reader: 10 dtypes x byte orders x 3 versions x 1 200 header spellings (thorough 3 888) x 1-D/2-D with boundary values of every type, expected float64 bits computed from the decimal meaning; the committed corpus of 120 files written by numpy 2.4.6 compared with numpy's own astype('<f8') bytes, also end-to-end through the binary; Fortran order, unsupported dtypes, missing keys, bad magic/version must be rejected.",
         TRUST + "numpy corpus generated once by tools/gen_numpy_corpus.py (numpy 2.4.6). '|' is exercised only for 1-byte dtypes; 0-dimensional arrays are outside the alphabet.", "3 C15"),
 "C16": ("fault_enumeration",
         "exhaustive enumeration of every truncation offset / extension length of npy files and every single-token / single-axis edit of text files, on the real reader and binary",
         "For 29 valid npy files (numpy layout in 6 dtypes and 3 versions, and sfs-written; 16 shapes incl. 1-cell and 0-cell arrays) every strict prefix and every extension by 1..16 bytes must make Array::read_npy return Err; through the binary every such damage of selected files (thorough: all) must make view, fold and stat exit non-zero with a diagnostic and empty stdout (a panic counts as a violation). Text: every deletion of one value token, every insertion at every position, every single-axis header edit: rejected iff the token count differs from the product of the declared shape; consistent edits are counted, not ignored.",
         TRUST + "Multi-fault damage (e.g. truncation plus a header edit) is outside the bound.", "3 C16"),
 "C18": ("fault_enumeration",
         "deviation-bounded exhaustive exploration of chunk schedules and fault offsets on the real readers/writers behind owned I/O seams",
         "Read side: the real format detection + reader construction (hook verif_build_from_reader) and Array::read_npy over a chunk-scheduled BufRead: 0 cuts, every single cut offset (a first chunk of any length), every pair of cuts (thorough; quick: pairs with the first cut in the first 8 bytes), periodic 1/2/3/7/64-byte chunks, for a call set as vcf, vcf.gz, bcf, raw bcf in two BGZF layouts with 1-2(4) threads and three npy files; the result must equal the one-chunk result. A read error injected at every byte offset (alone, after a cut, under periodic schedules) must surface as Err whenever it was delivered. Write side: 8 spectra x {text p=0,6,17; npy} through writers accepting 1/2/3/7 bytes per call (identical bytes) and failing or returning Ok(0) at every offset (must be Err). Real OS pipes with a delayed second write confirm end to end.",
         TRUST + "Schedules with more than two deviations are covered only by the periodic schedules. The pipe runs depend on OS timing and never decide alone.", "3 C18"),
 "C19": ("model_checking",
         "explicit-state exploration of iterator call histories + exhaustive index-box enumeration on the real Array API",
         "Every shape with 1..5 axes and lengths 1..5 (thorough: 6 axes, and lengths up to 8 at <=4 axes): every index of the box "
         "[0..len+1]^d, every (axis 0..d+1, position 0..len+1) request, and for IndicesIter/AxisIter/view::Iter/FrequenciesIter every "
         "history next^j.len.next... continued 3 calls past exhaustion, each compared with a RefArray odometer model. Exhaustive in "
         "the bound, so it decides the property for those shapes; the code is uniform in shape so larger shapes add no new case.",
         TRUST + "Shapes beyond the bound and element types other than f64 are not explored.", "3 C19"),
}

# Additions made after the independently seeded changes (DESIGN 8.2); appended to level_claimed.text.
EXTRA = {
 "C01": "Also at L2: monomorphic (ALT=.) records over every row of {hom-ref, missing}, symbolic / indel / '*' alleles, an explicit --precision 0/1/6/17 without projection (still exact integers), a list naming one sample twice, and the list written grouped by population (order unlike the column order) on a call set that no permutation of the samples maps onto itself. Verbosity flags -q/-v/-vv/-vvv; inputs by path under conventional file names; shapes of 4 225 and 21 141 entries; a contradictory list entry (error, first- or last-label assignment).",
 "C02": "Three larger cohorts (30 samples in 3 populations projected to 11x11x9 = 1 089 entries, 70 in 2 to 67x63 = 4 221, 24 in one) with every printed value compared.",
 "C03": "Every ordered pair of 110 (shape,target) projections run back to back on one thread (call histories of length 2). At L2 every wrong-dimensionality target that agrees with the source on shared axes (prefixes, suffixes, an axis dropped / appended / prepended / doubled) must be rejected. Ladder sizes 64..170 in the quick tier; every ordered pair of nine sizes 60..2000 on a freshly spawned thread (growth-order histories); two-axis projections of 173/191/229 chromosomes; spectra whose total is exactly zero and spectra scaled by 1e-18.",
 "C05": "Every basis spectrum and every spectrum with an exactly-zero mirror pair on all shapes with <=30 (thorough 52) cells x 4 fills; every ordered pair of those shapes folded back to back on one thread (call histories of length 2). `fold --output FILE` onto a fresh path and onto a longer existing file.",
 "C07": "The consumer receives the bytes through every transport {stdin regular file, stdin real pipe, path of a regular file, path of a FIFO, /dev/stdin over a pipe}; -o onto a longer pre-existing file; a size ladder of 600..150 000 cells (thorough 1.2 M) through both formats at L1 and through view | view -O npy | view at L2 with every value compared exactly. -o onto the input file itself.",
 "C08": "Additionally the probe record as a monomorphic (ALT=.) record for all strings over {., 0}, and 105 strings with allele indices 255..4294967295 in the text path.",
 "C09": "Seven naming schemes for sample names and labels (numeric names in non-lexicographic order, labels with blanks sharing a first word, prefix / case-differing / numeric labels, a label equal to a sample name, names with blanks, non-ASCII); samples files with LF, CRLF, no final newline and mixed endings; an absent sample at every position of every list of 1..4 entries; verbatim repeated entries; contradictory lists (accepted: an error, or the first-label or last-label assignment). Labels containing '='; the samples file read from a named pipe.",
 "C10": "Streams of length 2..3 additionally with all records at one contig:position, and (without corrupt lines) as BCF whose header lists the contigs against their IDX order; cohorts of 60/90/128/200 samples x -p in {1,20,n/2,n-5,n}: finite entries, mass + skipped = records. A tenth symbol: the record without genotypes (FORMAT without GT / no FORMAT field), in VCF and BCF; streams of length <=2 x modes x {-q,-qq,-v,-vv} keep exit status and stdout.",
 "C11": "Projection set-ups (2,2), (4,1), (0,2), (3,0), (0,0) chromosomes; the number of observations must equal the number of records. At L2 a 150-sample cohort under -p 100 in all 24 orders of four records, and a GT-less and a decorated record in the permutation set.",
 "C12": "For the small call sets also: ten file names (no, neutral, matching and misleading extensions) and the transports real pipe on stdin, FIFO by path, /dev/stdin. For the large call set stored BGZF blocks whose compressed first block is 8, 16, 32 and 64 KiB. A fourth small call set of unusual records (monomorphic with missing calls, no FORMAT field, FORMAT without GT).",
 "C13": "Spectra with totals below one, exactly one and within 1e-6 of one, single-entry spectra, and three spectra with more than 4096 entries. Library layer: breadth-first search over sequences of real operations {marginalize one / two axes, project one axis by -1 / all axes to 1, mask, normalize, fold} on the live object from five initial spectra to depth 4 (thorough 5); after every transition shape, element count, every value by flat position and through multi-index access, the total and every axis sum are compared with the reference (about 3 200 states, 13 800 transitions quick).",
 "C14": "Monomorphic entries also at 1e17 and 1e150 (values next to which the polymorphic mass vanishes in floating point).",
 "C15": "Every reader-matrix file is additionally read in 1-, 7- and 13-byte chunks; `view -O npy` to a piped stdout for spectra whose binary values contain 0x0A bytes.",
 "C16": "npy extensions of 1..16, 24, 32, 40, 48, 64, 72 bytes of eight byte kinds (pattern, zeros, 0xff, spaces, newlines, CRLF, tabs, letters); text: every surplus of 2..2n tokens, surplus values on a third line, a duplicated value line, concatenated spectra.",
 "C17": "Every axis list of length 1..4 over axes 0..d on a 3- and a 4-axis spectrum as -m and -M.",
 "C18": "At L2: view / fold / stat reading text and npy spectra from real pipes with a short first write; stdout and -o connected to /dev/full for every subcommand must end in a diagnosed error. Thorough bound 2: all pairs of cuts for plain inputs and single-block BGZF inputs with one inflater thread; for the other BGZF inputs the first cut ranges over the first block + 32 bytes.",
 "C19": "Iterator histories also next^j.nth(k).len.size_hint.next.len, next^j.count and next^j.last for j and k on their boundaries (0, 1, last, one and two past the end).",
}

NOT_YET = {}

def main():
    here = os.path.dirname(os.path.dirname(os.path.abspath(__file__)))
    props = [json.loads(l) for l in open(os.path.join(here, "properties.jsonl"))]
    checks = []
    na = []
    for p in props:
        pid = p["id"]
        if pid in CHECKS:
            cat, tech, text, note, ref = CHECKS[pid]
            checks.append({
                "property_id": pid,
                "quick_cmd": f"./check {pid} quick",
                "thorough_cmd": f"./check {pid} thorough",
                "evidence_file": f"/verif/evidence/{pid}.json",
                "replay_cmd_template": f"./check {pid} --replay {{path}}",
                "engine": "sfsmc",
                "level_claimed": {"category": cat, "text": (text + " " + EXTRA[pid]) if pid in EXTRA else text, "design_ref": ref + (", 8.2" if pid in EXTRA else "")},
                "level_note": note,
                "technique": tech,
            })
        else:
            na.append({"property_id": pid, "reason": NOT_YET.get(pid, "check not built yet (work in progress; planned in DESIGN.md section 3)")})
    try:
        commits = subprocess.check_output(["git", "-C", "/repo", "log", "--format=%h %s", "--grep=^verif hook"], text=True).strip().splitlines()
    except Exception:
        commits = []
    m = {
        "version": 1,
        "setup_cmd": "./setup.sh",
        "hooks": {
            "guard": "cargo feature `verif` of crate sfs-core (default off)",
            "enable": "the explorer crate /verif/harness depends on sfs-core by path (/repo/core) with features=[\"verif\"]; the product binary `sfs` is built with the feature off",
            "baseline_off_cmd": "cd /repo && cargo test --workspace --no-fail-fast --offline",
            "source_commits": [c.split()[0] for c in commits],
            "add_only": True,
        },
        "engines": [{
            "name": "sfsmc",
            "path": "/verif/harness",
            "serves_properties": [c["property_id"] for c in checks],
            "kind_free_text": "hand-rolled stateless choice-sequence explorer and explicit-state BFS over the real sfs_core API and the real sfs binary (bounded-exhaustive model checking; no sampling, no solver)",
        }],
        "checks": checks,
        "not_applicable": na,
        "notes": "Entry point ./check <ID> <quick|thorough>; it rebuilds the explorer against /repo/core (hooks on) and the sfs binary (hooks off, overflow checks on) on every call. Known findings: /verif/KNOWN_FINDINGS.txt. Design: /verif/DESIGN.md.",
    }
    json.dump(m, open(os.path.join(here, "MANIFEST.json"), "w"), indent=1)
    print("checks:", len(checks), "not_applicable:", len(na))

main()
