#!/usr/bin/env python3
"""Generates /verif/MANIFEST.json. Edit CHECKS below; run: python3 tools/gen_manifest.py"""
import json, os, subprocess

TRUST = ("Trusted base: rustc 1.95/std, the noodles-vcf/bcf/bgzf, flate2, nom and indexmap crates as locked in "
         "/repo/Cargo.lock, and the reference models in /verif/harness/src/refmodel.rs (written from the property "
         "statements and the cited papers). ")

# id -> (category, technique, text, note, design_ref)
CHECKS = {
 "C03": ("exploration",
         "bounded-exhaustive enumeration of projection-operator coefficients, basis-vector images and algebraic laws on the real code, against an exact-integer hypergeometric reference",
         "Every coefficient hypergeometric_pmf(N,K,n,k) for all arguments with N<=60 (thorough N<=200, crossing the 170! table boundary) plus a ladder of sizes up to 4 000 (thorough 40 000) chromosomes; Spectrum::project on every basis vector of every shape with <=3 axes (lengths <=4, thorough <=5; 4 axes at lengths <=2/3) for every admissible target, which decides the linear operator on those shapes; mass, non-negativity, bit-exact identity, two-step via every intermediate shape, commutation with marginalization, project(create)==create --project on complete call sets; every invalid target in a box; `sfs view --project-shape/-p` at L2. Exhaustive in the stated bound.",
         TRUST + "Tolerance |x-r|<=1e-8|r|+1e-13 (DESIGN 2.9). Spectra with >4 axes and non-boundary (K,n) at N>200 are outside the bound.", "3 C03"),
 "C04": ("exploration",
         "bounded-exhaustive enumeration of shapes x ordered axis lists on the real marginalize, with bit-label spectra whose sums identify their summands",
         "All 1 726 shapes with <=5 axes, lengths 1..6 and <=52 cells x every ordered list of distinct axes (joint and one-at-a-time), compared bit-exactly with a naive reference on bit-label spectra (each output cell names the exact multiset of input cells); thorough adds all 3 905 shapes (lengths <=5) under three integer labelings. Error clause on every list of length 0..d+1 over axes 0..d. L2: `sfs view -m` for every ordered list and `-M K` against the complement for every subset on a shape grid, and create|view -m == create of the remaining populations for all 51 sample maps of 4 samples. Marginalization is linear, so agreement on label spectra decides it for all value vectors of those shapes.",
         TRUST + "More than 5 axes is outside the bound (axes are handled by one uniform loop; first/middle/last axis and 5 axes are covered).", "3 C04"),
 "C05": ("exploration",
         "bounded-exhaustive enumeration of shapes x fills on the real fold, against the multi-index definition",
         "All 2 800 shapes with 1..4 axes and lengths 1..7 x fill in {nan,0,-1,inf}: every cell compared (bitwise, NaN-aware) with the definition on multi-indices, mass and idempotence with fill 0, fold(mirror x)==fold(x); bit-label spectra on the 814 shapes with <=52 cells, integer labelings and two special-value fillings (NaN, +-inf, -0, subnormal, huge) elsewhere; `sfs fold --fill` at L2. Folding is linear away from the fill cells, so label spectra decide it for all value vectors on those shapes.",
         TRUST + "Shapes with >4 axes or lengths >7 are outside the bound.", "3 C05"),
 "C19": ("model_checking",
         "explicit-state exploration of iterator call histories + exhaustive index-box enumeration on the real Array API",
         "Every shape with 1..5 axes and lengths 1..5 (thorough: 6 axes, and lengths up to 8 at <=4 axes): every index of the box "
         "[0..len+1]^d, every (axis 0..d+1, position 0..len+1) request, and for IndicesIter/AxisIter/view::Iter/FrequenciesIter every "
         "history next^j.len.next... continued 3 calls past exhaustion, each compared with a RefArray odometer model. Exhaustive in "
         "the bound, so it decides the property for those shapes; the code is uniform in shape so larger shapes add no new case.",
         TRUST + "Shapes beyond the bound and element types other than f64 are not explored.", "3 C19"),
}

NOT_YET = {}

def main():
    here = os.path.dirname(os.path.dirname(os.path.abspath(__file__)))
    props = [json.loads(l) for l in open(os.path.join(here, "properties.jsonl"))]
    checks = []
    na = []
    for p in props:
        pid = p["id"]
        if pid in CHECKS:
            cat, tech, text, note, ref = CHECKS[pid]
            checks.append({
                "property_id": pid,
                "quick_cmd": f"./check {pid} quick",
                "thorough_cmd": f"./check {pid} thorough",
                "evidence_file": f"/verif/evidence/{pid}.json",
                "replay_cmd_template": f"./check {pid} --replay {{path}}",
                "engine": "sfsmc",
                "level_claimed": {"category": cat, "text": text, "design_ref": ref},
                "level_note": note,
                "technique": tech,
            })
        else:
            na.append({"property_id": pid, "reason": NOT_YET.get(pid, "check not built yet (work in progress; planned in DESIGN.md section 3)")})
    try:
        commits = subprocess.check_output(["git", "-C", "/repo", "log", "--format=%h %s", "--grep=^verif hook"], text=True).strip().splitlines()
    except Exception:
        commits = []
    m = {
        "version": 1,
        "setup_cmd": "./setup.sh",
        "hooks": {
            "guard": "cargo feature `verif` of crate sfs-core (default off)",
            "enable": "the explorer crate /verif/harness depends on sfs-core by path (/repo/core) with features=[\"verif\"]; the product binary `sfs` is built with the feature off",
            "baseline_off_cmd": "cd /repo && cargo test --workspace --no-fail-fast --offline",
            "source_commits": [c.split()[0] for c in commits],
            "add_only": True,
        },
        "engines": [{
            "name": "sfsmc",
            "path": "/verif/harness",
            "serves_properties": [c["property_id"] for c in checks],
            "kind_free_text": "hand-rolled stateless choice-sequence explorer and explicit-state BFS over the real sfs_core API and the real sfs binary (bounded-exhaustive model checking; no sampling, no solver)",
        }],
        "checks": checks,
        "not_applicable": na,
        "notes": "Entry point ./check <ID> <quick|thorough>; it rebuilds the explorer against /repo/core (hooks on) and the sfs binary (hooks off, overflow checks on) on every call. Known findings: /verif/KNOWN_FINDINGS.txt. Design: /verif/DESIGN.md.",
    }
    json.dump(m, open(os.path.join(here, "MANIFEST.json"), "w"), indent=1)
    print("checks:", len(checks), "not_applicable:", len(na))

main()
