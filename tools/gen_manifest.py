#!/usr/bin/env python3
"""Generates /verif/MANIFEST.json. Edit CHECKS below; run: python3 tools/gen_manifest.py"""
import json, os, subprocess

TRUST = ("Trusted base: rustc 1.95/std, the noodles-vcf/bcf/bgzf, flate2, nom and indexmap crates as locked in "
         "/repo/Cargo.lock, and the reference models in /verif/harness/src/refmodel.rs (written from the property "
         "statements and the cited papers). ")

# id -> (category, technique, text, note, design_ref)
CHECKS = {
 "C19": ("model_checking",
         "explicit-state exploration of iterator call histories + exhaustive index-box enumeration on the real Array API",
         "Every shape with 1..5 axes and lengths 1..5 (thorough: 6 axes, and lengths up to 8 at <=4 axes): every index of the box "
         "[0..len+1]^d, every (axis 0..d+1, position 0..len+1) request, and for IndicesIter/AxisIter/view::Iter/FrequenciesIter every "
         "history next^j.len.next... continued 3 calls past exhaustion, each compared with a RefArray odometer model. Exhaustive in "
         "the bound, so it decides the property for those shapes; the code is uniform in shape so larger shapes add no new case.",
         TRUST + "Shapes beyond the bound and element types other than f64 are not explored.", "3 C19"),
}

NOT_YET = {}

def main():
    here = os.path.dirname(os.path.dirname(os.path.abspath(__file__)))
    props = [json.loads(l) for l in open(os.path.join(here, "properties.jsonl"))]
    checks = []
    na = []
    for p in props:
        pid = p["id"]
        if pid in CHECKS:
            cat, tech, text, note, ref = CHECKS[pid]
            checks.append({
                "property_id": pid,
                "quick_cmd": f"./check {pid} quick",
                "thorough_cmd": f"./check {pid} thorough",
                "evidence_file": f"/verif/evidence/{pid}.json",
                "replay_cmd_template": f"./check {pid} --replay {{path}}",
                "engine": "sfsmc",
                "level_claimed": {"category": cat, "text": text, "design_ref": ref},
                "level_note": note,
                "technique": tech,
            })
        else:
            na.append({"property_id": pid, "reason": NOT_YET.get(pid, "check not built yet (work in progress; planned in DESIGN.md section 3)")})
    try:
        commits = subprocess.check_output(["git", "-C", "/repo", "log", "--format=%h %s", "--grep=^verif hook"], text=True).strip().splitlines()
    except Exception:
        commits = []
    m = {
        "version": 1,
        "setup_cmd": "./setup.sh",
        "hooks": {
            "guard": "cargo feature `verif` of crate sfs-core (default off)",
            "enable": "the explorer crate /verif/harness depends on sfs-core by path (/repo/core) with features=[\"verif\"]; the product binary `sfs` is built with the feature off",
            "baseline_off_cmd": "cd /repo && cargo test --workspace --no-fail-fast --offline",
            "source_commits": [c.split()[0] for c in commits],
            "add_only": True,
        },
        "engines": [{
            "name": "sfsmc",
            "path": "/verif/harness",
            "serves_properties": [c["property_id"] for c in checks],
            "kind_free_text": "hand-rolled stateless choice-sequence explorer and explicit-state BFS over the real sfs_core API and the real sfs binary (bounded-exhaustive model checking; no sampling, no solver)",
        }],
        "checks": checks,
        "not_applicable": na,
        "notes": "Entry point ./check <ID> <quick|thorough>; it rebuilds the explorer against /repo/core (hooks on) and the sfs binary (hooks off, overflow checks on) on every call. Known findings: /verif/KNOWN_FINDINGS.txt. Design: /verif/DESIGN.md.",
    }
    json.dump(m, open(os.path.join(here, "MANIFEST.json"), "w"), indent=1)
    print("checks:", len(checks), "not_applicable:", len(na))

main()
