#!/usr/bin/env python3-vt
"""(Re)generates /verif/corpus/npy with numpy: files written by numpy itself for every supported
dtype x byte order x header version, 1-D and 2-D, together with numpy's own float64 conversion.
Run with the tooling venv: python3-vt tools/gen_numpy_corpus.py   (checks do not need Python)."""
import io, os, sys, json
import numpy as np
from numpy.lib import format as npf

out = os.path.join(os.path.dirname(os.path.dirname(os.path.abspath(__file__))), "corpus", "npy")
os.makedirs(out, exist_ok=True)
for f in os.listdir(out):
    os.remove(os.path.join(out, f))

def values(kind, size):
    if kind == 'f':
        fi = np.finfo(f'f{size}')
        return [0.0, -0.0, 1.5, -2.25, float(fi.max), float(fi.tiny), float(fi.smallest_subnormal), np.inf, -np.inf, np.nan, 1/3, 123456.789]
    if kind == 'i':
        ii = np.iinfo(f'i{size}')
        return [ii.min, -1, 0, 1, ii.max, ii.min + 1, ii.max - 1, 42, -42, 7, 100, -100]
    ii = np.iinfo(f'u{size}')
    return [0, 1, ii.max, ii.max - 1, ii.max // 2, ii.max // 2 + 1, 42, 7, 100, 255, 2, 3]

index = []
for kind, size in [('f', 4), ('f', 8), ('i', 1), ('i', 2), ('i', 4), ('i', 8), ('u', 1), ('u', 2), ('u', 4), ('u', 8)]:
    for order in ['<', '>']:
        dt = np.dtype(f'{order}{kind}{size}')
        vals = values(kind, size)
        for dims in [(12,), (3, 4)]:
            a = np.array(vals, dtype=dt).reshape(dims)
            for version in [(1, 0), (2, 0), (3, 0)]:
                name = f"{kind}{size}_{'le' if order == '<' else 'be'}_v{version[0]}_{len(dims)}d"
                buf = io.BytesIO()
                npf.write_array(buf, a, version=version)
                raw = buf.getvalue()
                open(os.path.join(out, name + ".npy"), "wb").write(raw)
                open(os.path.join(out, name + ".f64"), "wb").write(a.astype('<f8').tobytes())
                index.append({"name": name, "descr": npf.dtype_to_descr(a.dtype), "shape": list(dims), "version": list(version)})
# rejected files: fortran order, unsupported dtypes
rej = {
    "fortran_2d": np.asfortranarray(np.arange(6, dtype='<f8').reshape(2, 3)),
    "f2": np.arange(4, dtype='<f2'),
    "c8": np.arange(4, dtype='<c8'),
    "bool": np.array([True, False]),
    "U3": np.array(['abc', 'de']),
    "S1": np.array([b'a', b'b']),
    "M8": np.array(['2020-01-01'], dtype='datetime64[D]'),
}
for name, a in rej.items():
    buf = io.BytesIO(); npf.write_array(buf, a, version=(1, 0))
    open(os.path.join(out, "reject_" + name + ".npy"), "wb").write(buf.getvalue())
    index.append({"name": "reject_" + name, "reject": True, "descr": npf.dtype_to_descr(a.dtype)})
json.dump({"numpy": np.__version__, "files": index}, open(os.path.join(out, "INDEX.json"), "w"), indent=1)
print("numpy", np.__version__, "files", len(index))
