#!/usr/bin/env python3
"""Regenerates the table of section 8.5 of DESIGN.md (between the DETECTION-TABLE markers) from
/verif/seeded/*/meta.json, /verif/seeded/*/notes.md and /verif/mutants/results.tsv."""
import json, os, re, collections
V = '/verif'
res = collections.defaultdict(list)
for line in open(f'{V}/mutants/results.tsv'):
    f = line.rstrip('\n').split('\t')
    if len(f) >= 5:
        res[f[0]].append(dict(check=f[1], tier=f[2], rc=f[3], nviol=f[4], keys=f[5] if len(f) > 5 else ''))
rows = []
bys = []
for name in sorted(os.listdir(f'{V}/seeded')):
    m = json.load(open(f'{V}/seeded/{name}/meta.json'))
    summary = m.get('summary')
    if not summary:
        notes = m.get('needs_to_manifest', '')
        # first sentence-ish line that is not a heading
        lines = [l.strip(' -*#') for l in notes.split('\n') if l.strip(' -*#')]
        summary = (lines[1] if len(lines) > 1 and len(lines[0]) < 40 else lines[0]) if lines else ''
    summary = re.sub(r'\s+', ' ', summary)[:230]
    own = [r for r in res.get(name, []) if r['check'] == m['breaks_property']]
    hit = [r for r in res.get(name, []) if r['rc'] == '1']
    own_hit = [r for r in own if r['rc'] == '1']
    if own_hit:
        by = f"{own_hit[0]['check']} {own_hit[0]['tier']}"
        key = own_hit[0]['keys'].split(';')[0]
    elif hit:
        by = ', '.join(sorted({r['check'] for r in hit})) + ' (not by ' + m['breaks_property'] + ')'
        key = hit[0]['keys'].split(';')[0]
    elif res.get(name):
        by, key = '**not reported**', ''
    else:
        by, key = '(not run)', ''
    others = sorted({r['check'] for r in hit if r['check'] != m['breaks_property']})
    if own_hit and others:
        by += ' (also ' + ', '.join(others) + ')'
    files = ', '.join(os.path.basename(f) for f in m.get('files_touched', []))
    rows.append(f"| {name} | {files} | {summary} | {by} | `{key[:110]}` |")
    bys.append(by)
table = "| seed | files touched | mechanism / what it needs (from the seed's own notes) | reported by | first failure key |\n|---|---|---|---|---|\n" + "\n".join(rows)
n = len(rows)
rep = sum(1 for b in bys if 'not reported' not in b and 'not run' not in b)
own = sum(1 for b in bys if '(not by' not in b and 'not reported' not in b and 'not run' not in b)
ownq = sum(1 for b in bys if re.match(r'C\d\d quick', b))
head = f"{n} seeded changes; {rep} reported by at least one check, {own} of them by the check of the very property the change was written against ({ownq} by its quick tier, {own - ownq} by its thorough tier only).\n\n"
p = f'{V}/DESIGN.md'
s = open(p).read()
a, b = '<!-- DETECTION-TABLE-BEGIN -->', '<!-- DETECTION-TABLE-END -->'
if a in s:
    s = s[:s.index(a) + len(a)] + '\n' + head + table + '\n' + s[s.index(b):]
    open(p, 'w').write(s)
print(head)
